#!/usr/bin/env python3
"""Bookkeeping for seeded changes written by independent sub-agents.
  seed.py collect <worktree> <name> <property>     copy patch.diff / demo / notes into /verif/seeded/<name>/
  seed.py verify  <worktree> <name>                confirm: suite passes with the change, demo fails with it, passes without
  seed.py detect  <worktree> <name> <Cxx> [...]    run the given checks against the worktree (VERIF_REPO), record verdicts in meta.json
"""
import json
import os
import shutil
import subprocess
import sys
import time

VERIF = os.path.dirname(os.path.dirname(os.path.abspath(__file__)))


def sh(cmd, cwd=None, env=None, timeout=3600):
    e = dict(os.environ)
    if env:
        e.update(env)
    r = subprocess.run(cmd, shell=True, cwd=cwd, env=e, capture_output=True, text=True, timeout=timeout)
    return r.returncode, r.stdout + r.stderr


def meta_path(name):
    return os.path.join(VERIF, "seeded", name, "meta.json")


def load(name):
    p = meta_path(name)
    return json.load(open(p)) if os.path.exists(p) else {}


def save(name, m):
    json.dump(m, open(meta_path(name), "w"), indent=1)


def collect(wt, name, prop):
    d = os.path.join(VERIF, "seeded", name)
    os.makedirs(d, exist_ok=True)
    rc, diff = sh("git diff -- menelaus", cwd=wt)
    open(os.path.join(d, "patch.diff"), "w").write(diff)
    for f in os.listdir(wt):
        if f.startswith("demo_") or f.startswith("NOTES_"):
            shutil.copy(os.path.join(wt, f), d)
    m = load(name)
    m.update({"property": prop, "files": sorted({l[6:] for l in diff.splitlines() if l.startswith("+++ b/")}),
              "written_by": "independent sub-agent given only the property text and a private worktree"})
    save(name, m)
    print("collected", name, m["files"])


def verify(wt, name):
    env = {"PYTHONPATH": wt}
    demo = [f for f in os.listdir(wt) if f.startswith("demo_")][0]
    rc1, o1 = sh("/venv/bin/python -W ignore %s" % demo, cwd=wt, env=env)
    rc2, o2 = sh("/venv/bin/python -m pytest -q -p no:cacheprovider tests/menelaus 2>&1 | tail -3", cwd=wt, env=env)
    # (no git stash: stash refs are shared by all worktrees of a repository)
    tmp = "/tmp/seedverify_%s.diff" % name
    sh("git diff -- menelaus > %s && git checkout -- menelaus" % tmp, cwd=wt)
    rc3, o3 = sh("/venv/bin/python -W ignore %s" % demo, cwd=wt, env=env)
    sh("git apply %s && rm -f %s" % (tmp, tmp), cwd=wt)
    ok = rc1 == 1 and rc3 == 0 and " passed" in o2 and "failed" not in o2
    m = load(name)
    m["confirmed"] = {"demo_with_change_exit": rc1, "demo_without_change_exit": rc3, "suite_with_change": o2.strip().splitlines()[-1] if o2.strip() else "",
                      "ok": ok, "commands": ["PYTHONPATH=<worktree> /venv/bin/python %s" % demo, "PYTHONPATH=<worktree> /venv/bin/python -m pytest -q tests/menelaus",
                                             "git diff -- menelaus > x.diff; git checkout -- menelaus; demo again; git apply x.diff"]}
    m["demo_output_with_change"] = o1.strip()[-600:]
    save(name, m)
    print("verify", name, "OK" if ok else "NOT CONFIRMED", rc1, rc3, o2.strip().splitlines()[-1] if o2.strip() else "")
    return ok


def detect(wt, name, props):
    evd = os.path.join(VERIF, ".scratch", "seedev", name)
    os.makedirs(evd, exist_ok=True)
    m = load(name)
    res = m.setdefault("detected_by", {})
    for p in props:
        t0 = time.time()
        rc, out = sh("./check %s --tier quick" % p, cwd=VERIF, env={"VERIF_REPO": wt, "VERIF_EVIDENCE_DIR": evd})
        lines = [l for l in out.splitlines() if l.startswith("VIOLATION") or l.startswith("  ") or "MACHINERY" in l]
        res[p] = {"exit": rc, "wall_s": round(time.time() - t0), "first_report": " ".join(lines[:2])[:500]}
        print(name, p, "exit", rc, (lines[1][:200] if len(lines) > 1 else ""))
        save(name, m)
    shutil.rmtree(evd, ignore_errors=True)


if __name__ == "__main__":
    cmd = sys.argv[1]
    if cmd == "collect":
        collect(sys.argv[2], sys.argv[3], sys.argv[4])
    elif cmd == "verify":
        sys.exit(0 if verify(sys.argv[2], sys.argv[3]) else 1)
    elif cmd == "detect":
        detect(sys.argv[2], sys.argv[3], sys.argv[4:])


RELATED = [
    ("concept_drift/stepd", ["C05", "C01", "C02", "C16", "C17", "C12"]), ("concept_drift/ddm", ["C05", "C01", "C02", "C16", "C17", "C12"]),
    ("concept_drift/eddm", ["C05", "C01", "C02", "C16", "C17", "C12"]), ("page_hinkley", ["C04", "C01", "C02", "C17", "C11", "C14"]),
    ("cusum", ["C04", "C01", "C02", "C17", "C14", "C15"]), ("change_detection/adwin", ["C03", "C01", "C17", "C16", "C12"]),
    ("adwin_accuracy", ["C03", "C16", "C01"]), ("lfr", ["C06", "C01", "C16", "C17"]),
    ("histogram_density", ["C07", "C01", "C02", "C17", "C18", "C14"]), ("hdddm", ["C07", "C01", "C02"]), ("cdbd", ["C07", "C14", "C01"]),
    ("KDQTreePartitioner", ["C08", "C09", "C18", "C02", "C01"]), ("data_drift/kdq_tree", ["C09", "C01", "C02", "C17", "C18", "C14"]),
    ("NNSpacePartitioner", ["C10", "C02", "C17", "C18"]), ("nndvi", ["C10", "C01", "C02", "C17", "C18", "C15"]),
    ("pca_cd", ["C11", "C01", "C14"]), ("election", ["C13", "C12"]), ("ensemble/ensemble", ["C12"]),
    ("menelaus/detector", ["C14", "C15", "C16", "C01", "C12"]), ("md3", ["C19", "C01"]), ("injection", ["C20", "C15"]),
]


def matrix(names):
    """re-create every seeded change from its patch in a scratch worktree and run the related checks against it"""
    for name in names:
        d = os.path.join(VERIF, "seeded", name)
        m = load(name)
        wt = "/tmp/seedm/" + name
        sh("git -C /repo worktree remove --force %s" % wt)
        rc, o = sh("git -C /repo worktree add -q --detach %s HEAD" % wt)
        rc, o = sh("git apply %s" % os.path.join(d, "patch.diff"), cwd=wt)
        if rc != 0:
            print(name, "patch does not apply:", o[:200])
            continue
        props = [m["property"]]
        for key, ps in RELATED:
            if any(key in f for f in m.get("files", [])):
                props += [p for p in ps if p not in props]
        m["detected_by"] = {}
        save(name, m)
        detect(wt, name, props)
        sh("git -C /repo worktree remove --force %s" % wt)


if __name__ == "__main__" and sys.argv[1] == "matrix":
    names = sys.argv[2:] or sorted(n for n in os.listdir(os.path.join(VERIF, "seeded")) if os.path.isdir(os.path.join(VERIF, "seeded", n)) and n.startswith("S-"))
    matrix(names)


def own(names, procs=4):
    """refresh, for every seed, the verdict of its OWN property's quick check on the current machinery (several seeds at a time)"""
    from concurrent.futures import ThreadPoolExecutor

    def one(name):
        d = os.path.join(VERIF, "seeded", name)
        m = load(name)
        wt = "/tmp/seedo/" + name
        sh("git -C /repo worktree remove --force %s" % wt)
        sh("git -C /repo worktree add -q --detach %s HEAD" % wt)
        rc, o = sh("git apply %s" % os.path.join(d, "patch.diff"), cwd=wt)
        if rc != 0:
            sh("git -C /repo worktree remove --force %s" % wt)
            return name, "patch does not apply: " + o[:150]
        evd = os.path.join(VERIF, ".scratch", "seedev", name)
        os.makedirs(evd, exist_ok=True)
        p = m["property"]
        t0 = time.time()
        rc, out = sh("./check %s --tier quick" % p, cwd=VERIF, env={"VERIF_REPO": wt, "VERIF_EVIDENCE_DIR": evd})
        lines = [l for l in out.splitlines() if l.startswith("VIOLATION") or l.startswith("  ") or "MACHINERY" in l]
        m = load(name)
        m.setdefault("detected_by", {})[p] = {"exit": rc, "wall_s": round(time.time() - t0), "first_report": " ".join(lines[:2])[:500]}
        save(name, m)
        shutil.rmtree(evd, ignore_errors=True)
        sh("git -C /repo worktree remove --force %s" % wt)
        return name, "%s exit %d %s" % (p, rc, (lines[1][:120] if len(lines) > 1 else ""))

    with ThreadPoolExecutor(max_workers=procs) as ex:
        for name, res in ex.map(one, names):
            print(name, res, flush=True)


if __name__ == "__main__" and sys.argv[1] == "own":
    names = sys.argv[2:] or sorted(n for n in os.listdir(os.path.join(VERIF, "seeded")) if os.path.isdir(os.path.join(VERIF, "seeded", n)) and n.startswith("S-"))
    own(names)
