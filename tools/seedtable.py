#!/usr/bin/env python3
"""Print the seeded-change catch matrix (markdown) from /verif/seeded/*/meta.json."""
import json
import os
import re

VERIF = os.path.dirname(os.path.dirname(os.path.abspath(__file__)))
rows = []
for name in sorted(os.listdir(os.path.join(VERIF, "seeded"))):
    mp = os.path.join(VERIF, "seeded", name, "meta.json")
    if not os.path.exists(mp):
        continue
    m = json.load(open(mp))
    det = m.get("detected_by", {})
    caught = [p for p, r in det.items() if r["exit"] == 1]
    missed = [p for p, r in det.items() if r["exit"] == 0]
    broken = [p for p, r in det.items() if r["exit"] not in (0, 1)]
    notes = ""
    for f in os.listdir(os.path.join(VERIF, "seeded", name)):
        if f.startswith("NOTES_"):
            txt = open(os.path.join(VERIF, "seeded", name, f)).read()
            notes = " ".join(txt.split())[:0]
    rows.append("| %s | %s | %s | %s | %s | %s%s |" % (name, m.get("property"), ", ".join(x.replace("menelaus/", "") for x in m.get("files", [])),
                                                   "yes" if m.get("confirmed", {}).get("ok") else "NO", ", ".join(caught) or "-", ", ".join(missed) or "-",
                                                   (" (machinery failure: %s)" % ", ".join(broken)) if broken else ""))
import sys
table = "\n".join(["| seed | property | file changed | confirmed (suite passes, demo fails/passes) | caught by (quick tier) | run but not caught |",
                   "|---|---|---|---|---|---|"] + rows)
if "--update-design" in sys.argv:
    p = os.path.join(VERIF, "DESIGN.md")
    d = open(p).read()
    b, e = "<!-- SEEDTABLE:BEGIN -->", "<!-- SEEDTABLE:END -->"
    d = d[:d.index(b) + len(b)] + "\n" + table + "\n" + d[d.index(e):]
    open(p, "w").write(d)
    print("DESIGN.md updated: %d seeds" % len(rows))
else:
    print(table)
