#!/usr/bin/env python3
"""Refresh the 'quick' column of DESIGN.md section 0.3 from the wall_s recorded in evidence/<id>.json (quick tier runs)."""
import json
import os
import re

VERIF = os.path.dirname(os.path.dirname(os.path.abspath(__file__)))
p = os.path.join(VERIF, "DESIGN.md")
d = open(p).read()
for i in range(1, 21):
    pid = "C%02d" % i
    ev = json.load(open(os.path.join(VERIF, "evidence", pid + ".json")))
    if ev.get("tier") != "quick":
        continue
    w = int(round(ev["wall_s"]))
    d, n = re.subn(r"^(\| %s \|.*\| )\d+ s \|$" % pid, lambda m: "%s%d s |" % (m.group(1), w), d, count=1, flags=re.M)
    if n != 1:
        print("no row for", pid)
open(p, "w").write(d)
print("timings refreshed")
