#!/usr/bin/env python3
"""Regenerate /verif/MANIFEST.json from the table below (keeps the manifest valid and uniform)."""
import json
import os

HERE = os.path.dirname(os.path.dirname(os.path.abspath(__file__)))
props = [json.loads(l) for l in open(os.path.join(HERE, "properties.jsonl"))]

TRUST = ("TLC 1.8 + SANY; Num.java (IEEE double arithmetic behind module Num); CommunityModules Json/IOUtils; "
         "CPython/numpy; the harness's projection functions (public attributes); single-threaded use. ")

# pid -> (text, note, technique, design_ref)
PROD = "TLA+ relation spec (self-composition) + TLC validation of product traces of two real executions"
CHECKS = {
    "C01": ("Lifecycle.tla states the contract (state alphabet, total / since rules incl. the automatic restart after a drift, no alarm before the "
            "documented warm-up, recommendation range and its clearing) with the per-detector table as a variable. Every detector module refines it "
            "(PROPERTY LCSpec in the MC_ configurations of DDM, EDDM, STEPD, ADWIN, CUSUM, PageHinkley, LFR, KdqDetector, HDM, PCACD - checked by TLC "
            "for all input sequences up to each module's bound). Conformance: lifecycle traces of all 15 real detector classes (several drifts back to "
            "back, user resets, refused calls, set_reference) are validated by Trace_Lifecycle, which instantiates Lifecycle with the class's table "
            "and computes the warm-up predicate from its own counters, the documented parameters and harness-counted epoch facts. "
            "Thorough tier, extra: Apa_Lifecycle (Apalache) discharges the inductive invariant of the contract (natural counters, since <= total, recommendation "
            "range) for the six tables the real classes use - histories of any length - with a negative control that must be refuted.",
            TRUST + "epoch facts (errors / test batches of the epoch, labels given, window length before a cut) are counted by the harness from the inputs it fed.",
            "TLA+ spec + TLC refinement checking + TLC trace validation of recorded executions", "5/C01"),
    "C02": ("Model level: in MC_DDM / MC_EDDM / MC_STEPD / MC_PageHinkley / MC_Cusum a second instance is re-initialised after every drift "
            "(CUSUM: with the documented carry-over) and TLC checks TwinAgree for all input sequences in the bound. Code level: Product.tla with "
            "relation EqualShifted and its harness protocol (a NEW real twin after every reported drift, offset = items seen so far) validates "
            "whole-history runs of DDM, EDDM, STEPD, PageHinkley, CUSUM, KdqTreeStreaming, KdqTreeBatch, HDDDM, CDBD, NNDVI against fresh real twins "
            "per epoch under one numpy seed per step: state, counters, recs (shifted), every numeric public output; plus set_reference at an "
            "arbitrary point (after a drift and in a quiet epoch) against a new detector on that reference; and long runs fed from ONE caller buffer "
            "refilled in place (the twins get snapshots).",
            TRUST + "the documented carry-over is supplied to the twin by the harness.",
            PROD + " + TLC model checking of restarted twins", "5/C02"),
    "C15": ("Ownership.tla is the protocol model (caller buffers with versions, callee Copy vs the deviation Alias; TLC: without Alias no output "
            "ever diverges, with Alias every divergence stems from a live reference). Code level: for all 14 update/set_reference detectors (set_reference also in the middle of the history), for MD3 "
            "(reference frame, samples and labelled samples; overwritten after the call or one reused row frame per kind) and the 8 "
            "injectors a private-copy run is compared (Product / Equal) with a run in which the caller's arrays / DataFrames (C order, F order, strided "
            "view, single- and mixed-dtype DataFrame) are overwritten with garbage after EVERY call; the harness also digests the caller's objects "
            "before / after each call, checks injector results are new objects of the same type sharing no memory, and dict arguments unchanged.",
            TRUST + "MD3 (which deep-copies its DataFrames) is not driven here.",
            PROD + " + TLC model checking of the protocol", "5/C15"),
    "C16": ("The functional specifications of DDM, EDDM, STEPD, ADWIN take the agreement bit (LFR: the confusion cell) as their only input. "
            "Conformance: each outcome sequence is driven through the real DDM / EDDM / STEPD / ADWINAccuracy under 9 label encodings (other ints, "
            "strings, bools, floats, three classes, 0-d / 1-d arrays, lists, fresh random classes per sample) with junk in X, and every such trace "
            "must be accepted by the SAME Trace_<M> behaviour; LFR under 4 encodings of its 0/1 cells against Trace_LFR; and for ADWIN, CUSUM, "
            "PageHinkley, KdqTreeStreaming/Batch, HDDDM, CDBD, NNDVI, PCACD a run with junk y_true / y_pred against the plain run (Product / Equal).",
            TRUST, "TLC trace validation against the functional TLA+ specs + product traces", "5/C16"),
    "C17": ("Product.tla relations FirstDriftNotLater and WarningsSuperset (sanity-checked by TLC on MC_Product). Code level: for 12 families "
            "(ADWIN delta, CUSUM / PageHinkley threshold, DDM drift_scale, EDDM drift_thresh, STEPD alpha_drift, LFR detect_level, kdq-tree "
            "streaming / batch and NN-DVI alpha, HDDDM / CDBD significance) two real runs with an ordered pair of thresholds see the same history "
            "under the same seed before every step and TLC validates that the stricter run never drifts first; for DDM, EDDM, STEPD, LFR warning "
            "thresholds: same drifts and warnings preserved. Role-swapped pairs must be refused.",
            TRUST, PROD, "5/C17"),
    "C18": ("HDM.tla, KdqTree.tla and NNSP.tla use a batch only through multiset-valued operators (bin counts, leaf counts, sorted distinct "
            "union); their MC configurations are re-run here. Code level: original vs row-permuted reference and test batches for HDDDM / CDBD "
            "(detect_batch 3: complete outputs; detect_batch 2: distances while the decisions agree), KdqTreeBatch and NNDVI (complete outputs "
            "under the same seed), validated by Product (Equal / EqualWhileAgree).",
            TRUST, PROD, "5/C18"),
    "C03": ("TLC explores Adwin.tla (window as the sequence of retained inputs + buckets-per-row layout; compress, scheduled shrink by "
            "epsilon-cut at bucket boundaries) for ALL 0/10 input sequences to depth 11/14 over 144 configurations (max_buckets 1-2, "
            "both bounds): layout, grow-or-cut, no-cut-left, recs = retained window, lifecycle refinement. Conformance: all 2^9/2^12 "
            "sequences and long real-valued shifting streams (max_buckets=1 included, resets, refused calls, all containers) run on the real "
            "ADWIN, and indicator streams on ADWINAccuracy with non-default parameters; after every update TLC checks mean(), variance() "
            "against the mean / population variance of the specification's window, state, recs, counters. Sabotaged copies must be rejected.",
            TRUST + "_window_size is read optionally.",
            "TLA+ spec + TLC model checking + TLC trace validation of recorded executions", "5/C03"),
    "C04": ("TLC explores PageHinkley.tla and Cusum.tla exhaustively (all sequences over a 4-value alphabet to depth 7/9, "
            "12+24 configurations; burn-in, direction, rule and extremes invariants; refinement of Lifecycle; a twin restarted "
            "after every drift). Conformance: every sequence of length 5/7 over that alphabet and long level-shifting streams are run "
            "on the real classes (all container types, user resets, refused calls) and every call's projected state - counters, state, "
            "and every column of the last to_dataframe() row / target, sd_hat and the cumulative sums - is validated by TLC against the "
            "same actions (Trace_PageHinkley, Trace_Cusum). Sabotaged copies must be rejected.",
            TRUST + "CUSUM's cumulative sums are private attributes, read optionally.",
            "TLA+ spec + TLC model checking + TLC trace validation of recorded executions", "5/C04"),
    "C05": ("TLC explores DDM.tla, EDDM.tla, STEPD.tla for ALL binary outcome sequences up to depth 11-15 and 9-15 configurations each "
            "(lifecycle refinement, first-warning / run-start semantics of retraining_recs, window definition, restarted-twin equality). "
            "Conformance: all 2^9 (quick) / 2^13 (thorough) sequences and long piecewise-stationary streams are executed on the real classes "
            "and every update's state, counters, recs (and STEPD's accuracies) validated by TLC against the same Step actions. "
            "Epochs of 100 000+ correct predictions are folded into one trace event by STEPD.Quiet, whose closed form MC_STEPD.QuietIsStep checks "
            "against Step on every reachable quiet state. Sabotaged copies must be rejected.",
            TRUST + "standard normal quantiles for STEPD from scipy.stats.norm.ppf.",
            "TLA+ spec + TLC model checking + TLC trace validation of recorded executions", "5/C05"),
    "C06": ("LFR.tla: confusion matrix of the epoch (pseudo-counts), the four rates as integer pairs, changed-only exponentially weighted "
            "statistics for tracked rates, test schedule (burn_in, subsample), Monte-Carlo bounds as environment records keyed by "
            "<<rounded rate, denominator>> that must be stable across uses and resets (cache), state from the flags of tracked rates, recs, "
            "all_drift_states. TLC: all {0,1}^2 cell sequences to depth 6/9 for 6 tracked subsets x burn_in x subsample: each sample moves its "
            "own cell, a rate's statistic moves only on its own cells, untracked rates never move or matter, lifecycle refinement. Conformance: "
            "every cell sequence of length 4/6 and regime-changing streams on the real class: TLC recomputes cells, statistics, schedule and "
            "decision at each step from the bounds the implementation used, requires a key's first bounds inside an independent 20000-draw "
            "bracket (exact Beta bounds for its order statistics) and identical bounds on every later use.",
            TRUST + "_bounds / _r_stat / _confusion are optional private reads; parallelize=True only with at most one tracked rate (one job, no concurrency).",
            "TLA+ spec + TLC model checking + TLC trace validation with bracketed stochastic bounds", "5/C06"),
    "C07": ("HDM.tla: exact integer histograms on the common range with floor(sqrt(reference size)) bins, Hellinger / Jensen-Shannon / a user "
            "divergence, feature average, epsilon, bootstrapped-first-epsilon bookkeeping, running mean / deviation, t- or k-sigma threshold, "
            "drift rule from the detect_batch-th batch, reference growth / replacement, reset incl. the positional halving and proxy batch of "
            "detect_batch=1, feature_info. TLC: all histories of set_reference/update/reset over a 4-batch alphabet to depth 6 for detect_batch "
            "1,2,3 x 2 statistics x 3 divergences (no drift before detect_batch, drift <=> epsilon > beta, ranges, reference rule, lifecycle "
            "refinement with the +2 counting) and the distance axioms over all pairs of small batches. Conformance: random HDDDM/CDBD histories on "
            "integer data (1-3 features, varying batch sizes, ndarray/DataFrame, mid-history set_reference and reset, a batch equal to the reference) "
            "with every public record compared after each call: counters, state, current_distance, epsilon, threshold, reference size, feature_info.",
            TRUST + "t quantiles from scipy; the bootstrapped first epsilon is read from the public epsilon list as an input.",
            "TLA+ spec + TLC model checking + TLC trace validation of recorded executions", "5/C07"),
    "C08": ("KdqTree.tla defines build (three-way stop rule, axis cycling, midpoint split), fill, reset, leaf order, the +0.5-corrected "
            "distributions, KL, the flattened plotly view and the Kulldorff statistic on integer data (exact). TLC checks, for EVERY multiset of "
            "up to 4 points on a 3x3 / 4x4 grid and a 5-point line, all count_ubounds and two cell-size bounds, followed by every fill under two ids "
            "with/without reset: partition, no small node split, children sums, leaf totals, counts = routing, refill reproduces build counts, "
            "distributions sum to 1, KL >= 0 and 0 for equal counts, flattened view well-formed. Conformance: every multiset of <= 3/4 grid points "
            "and random sessions (1-4 dims, duplicates, clusters, up to 400 points, fills/resets/queries) run on the real KDQTreePartitioner; after "
            "every call TLC compares the whole public tree node by node, leaf counts, kl_distance, plotly rows and KSS values; partitioner objects "
            "that build 2-4 times (model action Rebuild, action property FreshLeaves); relational refill traces on decimal, continuous, longdouble "
            "and last-place-adjacent samples.",
            TRUST + "integer-valued data; scipy.stats.entropy is compared numerically (1e-7).",
            "TLA+ spec + TLC model checking + TLC trace validation of recorded executions", "5/C08"),
    "C09": ("KdqDetector.tla puts the streaming (reference window, silent test window, in-a-row persistence run, restart) and batch (reference, "
            "fill-with-reset, drifted batch becomes reference) protocols on top of KdqTree.tla; the bootstrap critical value is an environment value "
            "constrained to an independently computed bracket. TLC checks all sample sequences over a 3-point alphabet to depth 9/11 (W 2-3, three "
            "persistence values, two critical values) and all sequences over a 3-batch alphabet: silence until 2W, drift <=> run in a row > p*W, "
            "batch rule, next reference, lifecycle refinement. Conformance: bursty integer streams (1-3 dims, resets) and batch histories (with "
            "set_reference mid-history and first-update-as-reference) on the real classes; TLC recomputes tree, divergence and decision at every "
            "step, binds the critical value to the observed one and requires it inside the exact-Beta bracket of the documented quantile.",
            TRUST + "_critical_dist/_test_dist are optional private reads; the bracket is an independent 1500-pair bootstrap.",
            "TLA+ spec + TLC model checking + TLC trace validation with bracketed stochastic threshold", "5/C09"),
    "C10": ("NNSP.tla: sorted distinct union, exact membership vectors, validity of ANY k-nearest relation incl. self, the NNPS distance "
            "(exact rational form and Num form); NNDVI.tla: distance to the reference, permutation threshold as a bracketed environment value, "
            "drift rule, reference replaced on drift / kept otherwise. TLC: all pairs of samples of sizes 1..2/3 on a 2x2 lattice, k 1..3 and EVERY "
            "valid neighbour relation of their union: membership exact, distance symmetric, in [0,1], 0 for equal sets. Conformance: every pair of "
            "small samples and random pairs of unequal sizes with duplicates on the real NNSpacePartitioner (D, v1, v2, adjacency validity, distance, "
            "swap, self) and NNDVI histories (unequal batch sizes, set_reference / reset mid-history): TLC recomputes membership and distance, binds "
            "the threshold to the value returned by the wrapped static helper, requires it inside an independent 6-sigma bracket, checks the "
            "decision, counters and the retained reference_batch after every call.",
            TRUST + "sklearn's choice among equidistant neighbours is unspecified (validity is checked instead); integer lattice points.",
            "TLA+ spec + TLC model checking + TLC trace validation with bracketed stochastic threshold", "5/C10"),
    "C11": ("PCACD.tla: phases FillRef / FillTest / Monitor / Drifted, windows as index ranges of the stream, build when the test window fills, "
            "sliding test window, scoring every `step` samples, embedded PageHinkley instance (burn_in 0, threshold round(0.01*window)), drift iff "
            "it alarms, discarded sample + promotion of the test window after a drift, counter restart at 0. TLC: all score sequences over a "
            "4-value set to depth 10/13 (window 2-3, step 1-2, PH threshold 0-1, user resets): silence until 2W / W after a drift, scores only on "
            "schedule, drift <=> PH alarm on a scored sample, promotion, lifecycle refinement. Conformance: multivariate streams (2-4 features, "
            "level / variance / correlation shifts, a stream whose test window equals the reference window, both metrics, both scaling modes) on "
            "the real class; an independent kernel (sklearn PCA / StandardScaler / KernelDensity, numpy histograms per component on that "
            "component's own support) supplies score and number of components for exactly the ranges the specification designates; TLC checks "
            "ranges, schedule, the appended change score against the kernel, and every decision through the PageHinkley specification.",
            TRUST + "sklearn / numpy numeric kernels; _change_score optional private read.",
            "TLA+ spec + TLC model checking + TLC trace validation with an external numeric kernel table", "5/C11"),
    "C12": ("TLC explores Ensemble.tla (members as abstract lifecycle machines, four elections from Election.tla, own counters, reset fan-out) "
            "for 1-3 members, all vote schedules to depth 5/7: verdict = rule(member states), counters count updates, reset reaches everyone. "
            "Conformance: real StreamingEnsemble/BatchEnsemble with mixed members (DDM, EDDM, STEPD, ADWIN, PageHinkley, CUSUM, KdqTreeStreaming; "
            "HDDDM, CDBD, KdqTreeBatch, NNDVI), random column selectors, ndarray and DataFrame input, resets and set_reference mid-history, are run "
            "next to independently updated real twins under one numpy seed per step; TLC validates every event: member = twin, views = members, "
            "ensemble state = election over the logged member states (ConfirmedElection counters included), own counters.",
            TRUST + "twins are deep copies of the freshly constructed members.",
            "TLA+ spec + TLC model checking + TLC validation of product traces (ensemble vs lone twins)", "5/C12"),
    "C13": ("Election.tla states each election twice (documented scan and voting rule); TLC proves them equal, range and monotonicity for ALL "
            "state vectors of up to 3/4 members and all parameters 0..n+1, and explores the ConfirmedElection machine exhaustively (every reachable "
            "counter vector x every vote vector; counter bound; equivalence with the property's 'remaining voting calls' formulation). "
            "Conformance B: every case and every ConfirmedElection transition TLC enumerated (11k quick / 200k thorough) is executed on the real "
            "classes with stub members (counters set through the public attribute) and compared; conformance A: random ConfirmedElection walks with "
            "up to 7 members validated by Trace_Election.",
            TRUST + "members are stubs exposing drift_state only.",
            "TLA+ spec + exhaustive TLC enumeration replayed into the implementation + trace validation", "5/C13"),
    "C14": ("Validation.tla states the property's rule (row count, names, width, univariate guard; accepted input establishes memory; a refused "
            "call changes nothing) and names the code's known departures as deviation actions that are not part of Next. TLC checks on all "
            "call sequences to depth 5/6 over a 14-input alphabet x stream/batch x univariate: established => enforced, memory meaning, counted, "
            "no-harm against a twin that never saw the refused calls. Conformance: ALL call sequences of length 2-4 over that alphabet and valid "
            "histories with a malformed call injected at every position are executed on 10 real classes (bare base-class subclasses, "
            "KdqTreeStreaming, ADWIN, PageHinkley, CUSUM, KdqTreeBatch, HDDDM, CDBD, NNDVI) in every container type that denotes the value; TLC "
            "validates accept/refuse, the total counter and equality of all public outputs with a real twin fed only the well-formed calls as "
            "ndarrays (container independence + no-harm). Traces only explained with a deviation action of an open finding are KNOWN-FINDINGs.",
            TRUST + "the output digest lists the public statistics per class; y-inputs are not in the alphabet yet.",
            "TLA+ spec with deviation actions + TLC model checking + TLC validation of product traces", "5/C14"),
    "C19": ("MD3.tla: reference statistics over the k cross-validation folds (fold table from sklearn KFold, per-row margin / correctness bits "
            "as a kernel table), forgetting-factor recurrence, warning rule, Idle/Waiting modes, refusal rules, exact label count, confirmation "
            "rule, adoption of the labelled samples as new reference. TLC: all interleavings of the 7 call kinds (update in/out of margin, 2-row "
            "update, correct / incorrect label, label with wrong columns, 2-row label) to depth 7/9 from two references, oracle length 2-3, two "
            "sensitivities: refusals change nothing, drift only from the completing label, tracking restarts from the new density, counters count "
            "updates only; liveness Waiting ~> Idle under weak fairness of labelling. Conformance: every interleaving of the 7 kinds to depth 3/5 "
            "and long random scripts executed on the real MD3 (fixed and training-dependent clone-able classifiers, user margin function); every "
            "public attribute compared after every call, refused calls included.",
            TRUST + "fold assignment and per-row bits come from sklearn KFold and the user functions themselves.",
            "TLA+ spec + TLC model checking (safety + liveness) + TLC trace validation", "5/C19"),
    "C20": ("Injector.tla gives every injector as a pure operator (swap, label swap / join, shift by factor*(alpha+window mean)) or as the relation "
            "every run must satisfy (frame condition, random walk from x0 with +-1/sqrt(steps), window rows drawn from window rows, cover: hidden "
            "column and n rows per group). TLC checks over ALL 3x2 / 4x2 matrices on {0,1,2}, all windows 0<=from,to<=n (empty and full) and all "
            "column / class choices: involutions, idempotence, frame, exact effect, shift amount. Conformance: every window of a 5/7-row data set "
            "x 8 injectors x ndarray/DataFrame, random larger calls, and the aggregate class frequencies of many resampling calls (6-sigma binomial "
            "bound evaluated by TLC) on the real classes: container type, labels, input left unchanged, output = operator / relation.",
            TRUST + "numeric data.",
            "TLA+ spec + TLC exhaustive algebra check + TLC trace validation", "5/C20"),
}

NA_REASON = "check not built yet (build in progress; see DESIGN.md section 5)"

m = {"version": 1,
     "setup_cmd": "cd /verif/spec && javac -cp /opt/veriftools/tla/tla2tools.jar Num.java",
     "hooks": {"guard": "MENELAUS_VERIF",
               "enable": "no source hooks: the public API exposes the abstract state; checks import menelaus from /repo's working tree (PYTHONPATH=/repo)",
               "baseline_off_cmd": "cd /repo && /venv/bin/python -m pytest -q -p no:cacheprovider --timeout=900 tests",
               "source_commits": [], "add_only": True},
     "engines": [{"name": "tlc-trace", "path": "/verif/check", "serves_properties": sorted(CHECKS),
                  "kind_free_text": "TLA+ specifications under /verif/spec checked by TLC; traces of the real classes validated against them"}],
     "checks": [], "not_applicable": [],
     "notes": "Every check: ./check <id> --tier quick|thorough; exit 0 held, 1 VIOLATION, 2 machinery failure. Known findings: /verif/known_findings.json."}
for p in props:
    pid = p["id"]
    if pid in CHECKS:
        text, note, tech, ref = CHECKS[pid]
        m["checks"].append({"property_id": pid, "quick_cmd": "./check %s --tier quick" % pid,
                            "thorough_cmd": "./check %s --tier thorough" % pid,
                            "evidence_file": "/verif/evidence/%s.json" % pid,
                            "replay_cmd_template": "./check %s --replay {path}" % pid,
                            "engine": "tlc-trace",
                            "level_claimed": {"category": "model_checking", "text": text, "design_ref": "DESIGN.md section " + ref},
                            "level_note": note, "technique": tech})
    else:
        m["not_applicable"].append({"property_id": pid, "reason": NA_REASON})
json.dump(m, open(os.path.join(HERE, "MANIFEST.json"), "w"), indent=1)
print("claimed:", sorted(CHECKS), "na:", len(m["not_applicable"]))
