"""Driver for StreamingEnsemble / BatchEnsemble: the real ensemble against independently updated
real twins of its members (one numpy seed per step; twins run in insertion order so that their
RNG consumption matches the ensemble's)."""
import copy

import numpy as np
import pandas as pd

from .core import st, recs


def _members_stream(rng):
    from menelaus.concept_drift import DDM, EDDM, STEPD, ADWINAccuracy, LinearFourRates
    from menelaus.change_detection import ADWIN, PageHinkley, CUSUM
    from menelaus.data_drift import KdqTreeStreaming, PCACD
    from menelaus.ensemble import StreamingEnsemble, SimpleMajorityElection, MinimumApprovalElection

    def nested():
        # an ensemble is a detector: as a member it must run exactly as a lone ensemble of the same members would
        return StreamingEnsemble({"d": DDM(n_threshold=3, warning_scale=0.5, drift_scale=1.5), "p": PageHinkley(delta=0.01, threshold=2.0, burn_in=4),
                                  "s": STEPD(window_size=4, alpha_warning=0.4, alpha_drift=0.1)},
                                 MinimumApprovalElection(approvals_needed=1), {"p": lambda X: (X.iloc[:, [0]] if hasattr(X, "iloc") else X[:, [0]])})
    pool = [
        # (only the true-positive rate is tracked: LFR is NOT symmetric in the two labels - what the ensemble passes on as y_true must be y_true)
        ("lfr", lambda: LinearFourRates(time_decay_factor=0.75, warning_level=0.2, detect_level=0.05, burn_in=5, num_mc=60, subsample=1, round_val=2,
                                        rates_tracked=["tpr"]), None),
        ("adwacc", lambda: ADWINAccuracy(delta=0.3, new_sample_thresh=2, window_size_thresh=4, subwindow_size_thresh=2), None),
        ("pcacd", lambda: PCACD(window_size=14, ev_threshold=0.9, delta=0.05, divergence_metric="intersection", sample_period=0.1), None),
        ("nest", nested, None),
        ("ddm", lambda: DDM(n_threshold=rng_choice(rng, [3, 8]), warning_scale=rng_choice(rng, [0.5, 1.0]), drift_scale=rng_choice(rng, [1.5, 2.5])), None),
        ("eddm", lambda: EDDM(n_threshold=3, warning_thresh=0.99, drift_thresh=0.8), None),
        ("stepd", lambda: STEPD(window_size=4, alpha_warning=0.45, alpha_drift=rng_choice(rng, [0.1, 0.02])), None),
        ("adwin", lambda: ADWIN(delta=0.3, new_sample_thresh=2, window_size_thresh=4, subwindow_size_thresh=2), [0]),
        ("ph", lambda: PageHinkley(delta=0.01, threshold=3.0, burn_in=5), [1]),
        ("cusum", lambda: CUSUM(burn_in=6, threshold=3.0, delta=0.05), [2]),
        ("kdq", lambda: KdqTreeStreaming(window_size=12, persistence=0.1, bootstrap_samples=20, count_ubound=3), [1, 2]),
        ("kdqall", lambda: KdqTreeStreaming(window_size=10, persistence=0.2, bootstrap_samples=20, count_ubound=4), None),
    ]
    return pool


def rng_choice(rng, xs):
    return xs[rng.randrange(len(xs))]


def _members_batch(rng):
    from menelaus.data_drift import HDDDM, CDBD, KdqTreeBatch, NNDVI
    from menelaus.ensemble import BatchEnsemble, SimpleMajorityElection

    def nested():
        return BatchEnsemble({"h": HDDDM(detect_batch=3, statistic="stdev", significance=0.5, subsets=3),
                              "k": KdqTreeBatch(bootstrap_samples=20, count_ubound=8, alpha=0.2)},
                             SimpleMajorityElection(), {"k": lambda X: (X.iloc[:, [0, 1]] if hasattr(X, "iloc") else X[:, [0, 1]])})
    pool = [
        ("nest", nested, None),
        ("hdddm", lambda: HDDDM(detect_batch=rng_choice(rng, [1, 2, 3]), statistic="stdev", significance=0.5, subsets=3), None),
        ("hdddm2", lambda: HDDDM(detect_batch=2, statistic="tstat", significance=0.2, subsets=3), [0, 1]),
        ("cdbd", lambda: CDBD(detect_batch=3, statistic="stdev", significance=0.5, subsets=3), [0]),
        ("kdq", lambda: KdqTreeBatch(bootstrap_samples=20, count_ubound=8, alpha=0.05), None),
        ("kdq2", lambda: KdqTreeBatch(bootstrap_samples=20, count_ubound=8, alpha=0.2), [1, 2]),
        ("nndvi", lambda: NNDVI(k_nn=3, sampling_times=20, alpha=0.1), [0, 2]),
    ]
    return pool


def make_election(e):
    from menelaus.ensemble import (SimpleMajorityElection, MinimumApprovalElection, OrderedApprovalElection,
                                   ConfirmedElection)
    k = e["kind"]
    if k == "majority":
        return SimpleMajorityElection()
    if k == "min":
        return MinimumApprovalElection(approvals_needed=e["a"])
    if k == "ordered":
        return OrderedApprovalElection(approvals_needed=e["a"], confirmations_needed=e["c"])
    return ConfirmedElection(sensitivity=e["a"], wait_time=e["c"])


def mproj(d):
    total = getattr(d, "total_samples", None)
    if total is None:
        total = d.total_batches
        since = d.batches_since_reset
    else:
        since = d.samples_since_reset
    r = _recs(getattr(d, "retraining_recs", None))
    return {"state": st(d.drift_state), "total": int(total), "since": int(since), "recs": r}


def _recs(r):
    """[start, end] of a member; a nested ensemble reports a dict of its own members' values: first member's pair"""
    if r is None:
        return [-2, -2]
    if isinstance(r, dict):
        for v in r.values():
            return _recs(v)
        return [-2, -2]
    return recs(list(r))


def selector(cols, frame):
    if cols is None:
        return None
    if frame:
        return lambda X, c=cols: X.iloc[:, c]
    return lambda X, c=cols: X[:, c]


def event(op, ens, keys, twins, election_kind):
    views = ens.drift_states
    vrecs = ens.retraining_recs
    total = getattr(ens, "total_samples", None)
    if total is None:
        total, since = ens.total_batches, ens.batches_since_reset
    else:
        since = ens.samples_since_reset
    e = {"op": op, "m": [mproj(ens.detectors[k]) for k in keys], "t": [mproj(twins[k]) for k in keys],
         "vstates": [st(views[k]) for k in keys],
         "vrecs": [_recs(vrecs[k]) if k in vrecs else [-2, -2] for k in keys],
         "state": st(ens.drift_state), "total": int(total), "since": int(since), "ecnt": [0] * len(keys)}
    if election_kind == "confirmed" and ens.election.wait_period_counters is not None:
        e["ecnt"] = [int(x) for x in ens.election.wait_period_counters]
    return e


def run_stream(spec):
    """spec: dict(seed, members=[names], election={kind,a,c}, frame=bool, n=steps, resets=[positions])"""
    import random
    from menelaus.ensemble import StreamingEnsemble
    rng = random.Random(spec["seed"])
    pool = {n: (mk, cols) for n, mk, cols in _members_stream(random.Random(spec["seed"] + 1))}
    keys = spec["members"]
    st0 = random.Random(spec["seed"] + 2)
    dets, twins, sels = {}, {}, {}
    for k in keys:
        mk, cols = pool[k]
        state = st0.getstate()
        d = mk()
        dets[k], twins[k] = d, copy.deepcopy(d)
        s = selector(cols, spec["frame"])
        if s:
            sels[k] = s
    ens = StreamingEnsemble(dets, make_election(spec["election"]), sels)
    ev = []
    level, sd, perr = 0.0, 1.0, 0.1
    for t in range(spec["n"]):
        if t in spec["resets"]:
            ens.reset()
            for k in keys:
                twins[k].reset()
            ev.append(event("reset", ens, keys, twins, spec["election"]["kind"]))
        if spec.get("replace_at") == t:
            k = keys[rng.randrange(len(keys))]
            fresh = pool[k][0]()
            ens.detectors[k] = fresh
            twins[k] = copy.deepcopy(fresh)
            ev.append(event("replace", ens, keys, twins, spec["election"]["kind"]))
        if rng.random() < 0.03:
            # an update no member accepts (two observations at once): the ensemble passes the first member's ValueError on and counts nothing
            bad = np.array([[1.0, 2.0, 3.0], [4.0, 5.0, 6.0]])
            badX = pd.DataFrame(bad, columns=["a", "b", "c"]) if spec["frame"] else bad
            np.random.seed(1000 + t)
            try:
                ens.update(badX, [1, 0], [1, 1])
                raised = False
            except ValueError:
                raised = True
            np.random.seed(1000 + t)
            k0 = keys[0]
            try:
                twins[k0].update(X=sels[k0](badX) if k0 in sels else badX, y_true=[1, 0], y_pred=[1, 1])
            except ValueError:
                pass
            ev.append(event("refused" if raised else "refused-but-accepted", ens, keys, twins, spec["election"]["kind"]))
        if rng.random() < 0.04:
            level, sd, perr = rng.uniform(-5, 8), rng.uniform(0.3, 2), rng.uniform(0.05, 0.8)
        row = np.array([[round(rng.gauss(level, sd), 3) for _ in range(3)]])
        if spec.get("reuse"):
            # the caller reads every observation into ONE preallocated container and hands that same object over each time
            if t == 0 or "_X" not in spec:
                spec["_X"] = pd.DataFrame(np.zeros((1, 3)), columns=["a", "b", "c"]) if spec["frame"] else np.zeros((1, 3))
            X = spec["_X"]
            if spec["frame"]:
                X.iloc[0, :] = row[0]
            else:
                X[:] = row
        else:
            X = pd.DataFrame(row, columns=["a", "b", "c"]) if spec["frame"] else row
        yt = 1 if rng.random() < 0.75 else 0
        yp = (1 - yt) if rng.random() < (perr if yt == 1 else perr / 4) else yt          # (errors on the positive class are four times as frequent)
        np.random.seed(1000 + t)
        ens.update(X, yt, yp)
        np.random.seed(1000 + t)
        for k in keys:
            Xk = sels[k](X) if k in sels else X
            twins[k].update(X=Xk, y_true=yt, y_pred=yp)
        ev.append(event("update", ens, keys, twins, spec["election"]["kind"]))
    e = spec["election"]
    spec.pop("_X", None)
    return {"cfg": {"n": len(keys), "kind": e["kind"], "a": e["a"], "c": e["c"]}, "ev": ev, "spec": spec}


def run_batch(spec):
    import random
    from menelaus.ensemble import BatchEnsemble
    rng = random.Random(spec["seed"])
    pool = {n: (mk, cols) for n, mk, cols in _members_batch(random.Random(spec["seed"] + 1))}
    keys = spec["members"]
    dets, twins, sels = {}, {}, {}
    for k in keys:
        mk, cols = pool[k]
        d = mk()
        dets[k], twins[k] = d, copy.deepcopy(d)
        s = selector(cols, spec["frame"])
        if s:
            sels[k] = s
    ens = BatchEnsemble(dets, make_election(spec["election"]), sels)
    nprng = np.random.RandomState(spec["seed"])

    m_fixed = nprng.randint(16, 30)
    held = {}

    def batch(level, sd):
        m = m_fixed if spec.get("reuse") else nprng.randint(16, 30)
        a = np.round(nprng.normal(level, sd, size=(m, 3)) * 2) / 2
        if spec.get("reuse"):       # fixed-size chunks read into one container that is handed over again and again
            if "X" not in held:
                held["X"] = pd.DataFrame(np.zeros((m, 3)), columns=["a", "b", "c"]) if spec["frame"] else np.zeros((m, 3))
            if spec["frame"]:
                held["X"].iloc[:, :] = a
            else:
                held["X"][:] = a
            return held["X"]
        return pd.DataFrame(a, columns=["a", "b", "c"]) if spec["frame"] else a

    ev = []
    level, sd = 0.0, 1.0

    def setref():
        X = batch(level, sd)
        np.random.seed(77)
        ens.set_reference(X)
        np.random.seed(77)
        for k in keys:
            twins[k].set_reference(sels[k](X) if k in sels else X)
        ev.append(event("set_reference", ens, keys, twins, spec["election"]["kind"]))
        if rng.random() < 0.35:       # reset() right after set_reference, before any update, must reach every member too
            ens.reset()
            for k in keys:
                twins[k].reset()
            ev.append(event("reset", ens, keys, twins, spec["election"]["kind"]))

    setref()
    for t in range(spec["n"]):
        if t in spec["resets"]:
            if rng.random() < 0.5:
                ens.reset()
                for k in keys:
                    twins[k].reset()
                ev.append(event("reset", ens, keys, twins, spec["election"]["kind"]))
            else:
                setref()
        if rng.random() < 0.35:
            level, sd = rng.uniform(-3, 5), rng.uniform(0.5, 2.5)
        X = batch(level, sd)
        np.random.seed(2000 + t)
        ens.update(X)
        np.random.seed(2000 + t)
        for k in keys:
            twins[k].update(X=sels[k](X) if k in sels else X, y_true=None, y_pred=None)
        ev.append(event("update", ens, keys, twins, spec["election"]["kind"]))
    e = spec["election"]
    return {"cfg": {"n": len(keys), "kind": e["kind"], "a": e["a"], "c": e["c"]}, "ev": ev, "spec": spec}


def random_spec(rng, kind):
    names = [n for n, _, _ in (_members_stream(rng) if kind == "stream" else _members_batch(rng))]
    k = rng.randint(2, 4)
    members = rng.sample(names, k)
    ek = rng.choice(["majority", "min", "ordered", "confirmed", "confirmed"])
    el = {"kind": ek, "a": rng.randint(1, max(1, k - 1)), "c": rng.choice([0, 1, 2, 5, 10, 25]) if ek == "confirmed" else rng.randint(0, 1)}
    if kind == "stream" and ek == "confirmed" and not set(members) & {"ddm", "eddm", "stepd"}:
        members[0] = rng.choice(["ddm", "stepd"])          # a member that can warn again while its wait period is open
    n = rng.randint(80, 160) if kind == "stream" else rng.randint(8, 14)
    return {"seed": rng.randrange(10 ** 6), "members": members, "election": el, "frame": rng.random() < 0.5, "n": n,
            "resets": sorted(rng.sample(range(2, n), rng.randint(0, 2))), "kind": kind,
            "replace_at": rng.randint(n // 3, n - 5) if kind == "stream" and rng.random() < 0.5 else -1, "reuse": rng.random() < 0.3}


def sabotage(trace, rng):
    ks = [k for k, e in enumerate(trace["ev"]) if e["op"] == "update"]
    k = rng.choice(ks)
    e = trace["ev"][k]
    w = rng.choice(["state", "total", "member", "view"])
    if w == "state":
        e["state"] = "drift" if e["state"] != "drift" else "None"
    elif w == "total":
        e["total"] += 1
    elif w == "member":
        e["m"][0]["since"] += 1
    else:
        e["vstates"][-1] = "drift" if e["vstates"][-1] != "drift" else "None"
    return trace, k + 1, w
