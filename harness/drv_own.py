"""C15: private-copy run vs caller-overwrites-its-data run, for detectors and injectors."""
import copy
import hashlib

import numpy as np
import pandas as pd

from . import product as P
from .core import num

LAYOUTS = ["C", "F", "view", "frame", "mixedframe", "flat", "list", "readonly", "frame_values", "frame1", "frame_nocopy"]
GARBAGE = 987654.0


def build(layout, rows):
    """the caller's object for a (rows x d) matrix, plus a function that overwrites the caller's memory in place"""
    a = np.array(rows, dtype=float)
    if a.ndim == 1:
        a = a.reshape(1, -1)
    if layout == "flat":     # a 1-D array: one observation (stream) or one column (batch); the caller overwrites that very buffer
        obj = np.ascontiguousarray(a).ravel().copy()
        return obj, lambda: obj.__setitem__(Ellipsis, GARBAGE)
    if layout == "list":     # nested lists, emptied / overwritten in place by the caller afterwards
        obj = a.tolist()

        def overl():
            for r in obj:
                for j in range(len(r)):
                    r[j] = GARBAGE
        return obj, overl
    if layout == "C":
        obj = np.ascontiguousarray(a)
        return obj, lambda: obj.__setitem__(Ellipsis, GARBAGE)
    if layout == "F":
        obj = np.asfortranarray(a)
        return obj, lambda: obj.__setitem__(Ellipsis, GARBAGE)
    if layout == "view":
        base = np.zeros((a.shape[0] * 2, a.shape[1] + 1))
        base[::2, 1:] = a
        obj = base[::2, 1:]
        return obj, lambda: base.__setitem__(Ellipsis, GARBAGE)
    if layout == "frame1":        # a single-column frame (its block is both C- and F-contiguous)
        obj = pd.DataFrame(np.array(a[:, :1]), columns=["c0"])

        def over1():
            obj.iloc[:, :] = GARBAGE
        return obj, over1
    if layout == "frame_nocopy":  # a frame built over the caller's own row-major array without copying; the caller then overwrites the array
        base = np.ascontiguousarray(a)
        obj = pd.DataFrame(base, columns=["c%d" % i for i in range(a.shape[1])], copy=False)
        return obj, lambda: base.__setitem__(Ellipsis, GARBAGE)
    if layout == "readonly":      # a read-only window onto memory the caller can still write to (a protected view of a shared buffer)
        base = np.array(a, dtype=float)
        obj = base.view()
        obj.setflags(write=False)
        return obj, lambda: base.__setitem__(Ellipsis, GARBAGE)
    if layout == "frame_values":  # what DataFrame.to_numpy() hands out (read-only under copy-on-write); the caller then edits the frame's own data
        df = pd.DataFrame(a, columns=["c%d" % i for i in range(a.shape[1])])
        obj = df.to_numpy()
        raw = df._mgr.blocks[0].values if hasattr(df, "_mgr") else None

        def overv():
            try:
                if raw is not None:
                    raw[...] = GARBAGE
            except Exception:  # noqa
                pass
        return obj, overv
    if layout == "frame":
        obj = pd.DataFrame(a, columns=["c%d" % i for i in range(a.shape[1])])

        def over():
            obj.iloc[:, :] = GARBAGE
        return obj, over
    obj = pd.DataFrame(a, columns=["c%d" % i for i in range(a.shape[1])])
    obj["c0"] = obj["c0"].astype("float32").astype("float64")
    if a.shape[1] > 1:
        obj = obj.astype({"c1": "float32"}).astype({"c1": "float64"})
    blk = pd.DataFrame({c: obj[c].to_numpy().copy() for c in obj.columns})   # one block per column

    def over2():
        blk.iloc[:, :] = GARBAGE
    return blk, over2


def digest(obj):
    a = obj.to_numpy() if isinstance(obj, pd.DataFrame) else np.asarray(obj, dtype=float)
    return hashlib.md5(np.ascontiguousarray(a).tobytes()).hexdigest()


def detector_pair(fam, p, items, layout, s, setref_at=()):
    """A gets private copies, B gets the caller's objects which are overwritten with garbage after every call"""
    kind = P.families()[fam]["kind"]
    a, b = P.make(fam, p), P.make(fam, p)
    ev = []
    modified = False

    def call(det, method, x, alias):
        nonlocal modified
        if kind == "err":
            yt, yp = np.array([int(x[0])]), np.array([int(x[1])])
            d0 = (digest(yt), digest(yp))
            det.update(yt if alias else yt.copy(), yp if alias else yp.copy())
            if alias:
                modified |= d0 != (digest(yt), digest(yp))
                yt[...] = 5
                yp[...] = 5
            return
        rows = x if kind == "batch" else [x] if kind == "row" else [[x]]
        if layout == "flat" and kind == "batch":
            rows = [[r[0]] for r in rows]          # one column, handed over as a 1-D array
        obj, over = build(layout, rows)
        d0 = digest(obj)
        getattr(det, method)(obj if alias else copy.deepcopy(obj))
        if alias:
            modified |= d0 != digest(obj)
            over()

    t0 = 0
    if kind == "batch":
        P.seed(s, 0)
        call(a, "set_reference", items[0], False)
        P.seed(s, 0)
        call(b, "set_reference", items[0], True)
        t0 = 1
    for t in range(t0, len(items)):
        # (batch detectors) the caller hands over a NEW reference in the middle of the history, in the same container as everything else
        meth = "set_reference" if kind == "batch" and t in setref_at else "update"
        P.seed(s, t)
        call(a, meth, items[t], False)
        P.seed(s, t)
        try:
            call(b, meth, items[t], True)
            e = P.step_event(a, b)
        except Exception as ex:  # noqa
            e = P.step_event(a, b)
            e["b"]["tag"] = "raised " + type(ex).__name__
            ev.append(e)
            break
        if modified:
            e["b"]["tag"] = "CALLER DATA MODIFIED"
        ev.append(e)
    return {"cfg": {"rel": "Equal", "fam": fam}, "ev": ev, "fam": fam, "params": p, "items": items, "layout": layout, "seed": s, "setref_at": list(setref_at)}


def md3_pair(seed, mode, L, sens):
    """MD3 (the one detector whose inputs are frames with a label column and whose protocol has a third call, give_oracle_label):
    A gets private copies; B gets the caller's own frames - mode "garbage": a new frame per call, overwritten after the call;
    mode "reuse": ONE frame for samples and ONE for labelled samples, refilled in place before every call (a caller's row buffer)."""
    import random
    from menelaus.concept_drift import MD3
    from . import drv_md3 as M
    rng = random.Random(seed)
    ref = pd.DataFrame([M.sample_row(rng, i % 3 == 0, rng.random() < 0.85) for i in range(rng.choice([24, 40]))])
    dets = []
    for _ in (0, 1):
        clf = M.ThresholdClf("fixed").fit(ref[["x0", "x1"]], ref["y"])
        dets.append(MD3(clf=clf, margin_calculation_function=M.margin, sensitivity=sens, k=4, oracle_data_length_required=L))
    a, b = dets
    a.set_reference(ref.copy(), target_name="y")
    mine = ref.copy()
    d0 = digest(mine)
    b.set_reference(mine, target_name="y")
    modified = d0 != digest(mine)
    mine.iloc[:, :] = 9
    ubuf = pd.DataFrame([{"x0": 0.0, "x1": 0.0}])
    lbuf = pd.DataFrame([{"x0": 0.0, "x1": 0.0, "y": 0}])
    ev, script = [], []
    for t in range(260):
        lab = bool(a.waiting_for_oracle)
        row = M.sample_row(rng, rng.random() < (0.5 if lab else 0.65), (rng.random() < 0.5) if lab else None)
        script.append(row)
        meth = "give_oracle_label" if lab else "update"
        getattr(a, meth)(pd.DataFrame([row]))
        try:
            if mode == "reuse":
                buf = lbuf if lab else ubuf
                for c, v in row.items():
                    buf.loc[0, c] = v
            else:
                buf = pd.DataFrame([row])
            d0 = digest(buf)
            getattr(b, meth)(buf)
            modified |= d0 != digest(buf)
            if mode == "garbage":
                buf.iloc[:, :] = 7
            e = P.step_event(a, b, note=meth)
        except Exception as ex:  # noqa
            e = P.step_event(a, b, note=meth)
            e["b"]["tag"] = "raised " + type(ex).__name__
            ev.append(e)
            break
        if modified:
            e["b"]["tag"] = "CALLER DATA MODIFIED"
        ev.append(e)
    return {"cfg": {"rel": "Equal", "fam": "MD3"}, "ev": ev, "fam": "MD3", "mode": mode, "L": L, "sens": sens, "seed": seed}


# ------------------------------------------------------------------ injectors
def injector_pair(kind, frame, rng_seed):
    import random
    from menelaus import injection as I
    rng = random.Random(rng_seed)
    n, nc = rng.randint(6, 20), 3
    a = np.array([[float(rng.randint(-5, 9)) for _ in range(nc - 1)] + [float(rng.choice([0, 1, 2]))] for _ in range(n)])
    a[0, 2], a[1, 2], a[2, 2] = 0.0, 1.0, 2.0            # every class occurs
    names = ["f0", "f1", "y"]
    f, t = sorted((rng.randint(0, n), rng.randint(0, n)))
    if rng_seed % 4 == 0:
        t = f                                          # an empty window: still a NEW object must come back
    col = lambda pos: names[pos] if frame else pos
    probs = {0.0: 0.5}

    CLS = {"swap": I.FeatureSwapInjector, "shift": I.FeatureShiftInjector, "labelswap": I.LabelSwapInjector, "labeljoin": I.LabelJoinInjector,
           "brownian": I.BrownianNoiseInjector, "resample": I.LabelProbabilityInjector, "dirichlet": I.LabelDirichletInjector,
           "cover": I.FeatureCoverInjector}

    def call(inj, data, pr, col):
        if kind == "swap":
            return inj(data, f, t, col(0), col(1))
        if kind == "shift":
            return inj(data, f, t, col(0), 0.0 if rng_seed % 3 == 1 else 0.5)          # (a shift factor of 0 - nothing moves - still returns a NEW object)
        if kind == "labelswap":
            return inj(data, f, t, col(2), 0.0, 1.0)
        if kind == "labeljoin":
            return inj(data, f, t, col(2), 0.0, 1.0, 7.0)
        if kind == "brownian":
            return inj(data, f, t, col(0), 1.0, random_state=3)
        if kind in ("resample", "dirichlet"):
            return inj(data, f, t, col(2), pr)
        if kind == "cover":
            return inj(data, col(2), 3, random_state=3)
        raise KeyError(kind)

    last = {}

    def run(data, pr, used=False):
        inj = last["inj"] = CLS[kind]()
        if used:
            # the injector object has been used before, on the OTHER container type: what it returns now must not depend on that
            other = a.copy() if frame else pd.DataFrame(a.copy(), columns=names)
            np.random.seed((rng_seed + 1) % (2 ** 32))
            call(inj, other, dict(pr), (lambda pos: pos) if frame else (lambda pos: names[pos]))
        np.random.seed(rng_seed % (2 ** 32))
        return call(inj, data, pr, col)

    def mk():
        if frame:
            return pd.DataFrame(a.copy(), columns=names)
        if rng_seed % 5 in (1, 3):
            return np.array(a, order="F")         # a Fortran-ordered array that owns its memory
        return a.copy()

    def flat(x):
        return [num(v) for v in np.asarray(x, dtype=float).ravel()]

    pa = {0.0: 0.5} if kind == "resample" else {0.0: 1, 1.0: 2, 2.0: 3}
    if kind == "dirichlet" and rng_seed % 2 == 0:
        pa = {0.0: 4}           # weights for some of the labels only: the others are the injector's business, not the caller's dictionary's
    expected_arg = dict(pa)
    pb = dict(pa)
    out_a = run(mk(), pa)
    caller = mk()
    d0 = digest(caller)
    out_b = run(caller, pb, used=rng_seed % 3 != 0)
    flags = []
    if digest(caller) != d0:
        flags.append("INPUT MODIFIED")
    if type(out_b) is not type(caller):
        flags.append("container type changed")
    if pb != expected_arg or [type(k) for k in pb] != [type(k) for k in expected_arg]:
        flags.append("ARGUMENT DICT MODIFIED")
    # the SAME injector object serves a further, equally shaped input: what it returned before is the caller's now - it must neither be handed out
    # again nor be written to
    d_b = digest(out_b)
    np.random.seed((rng_seed + 2) % (2 ** 32))
    out_c = call(last["inj"], mk(), dict(pa), col)
    if out_c is out_b:
        flags.append("RESULT IS THE OBJECT RETURNED BY AN EARLIER CALL")
    if digest(out_b) != d_b:
        flags.append("RESULT OF AN EARLIER CALL OVERWRITTEN")
    ob = out_b.to_numpy() if isinstance(out_b, pd.DataFrame) else out_b
    cb = caller.to_numpy() if isinstance(caller, pd.DataFrame) else caller
    if np.shares_memory(ob, cb):
        flags.append("OUTPUT SHARES MEMORY WITH INPUT")
    # the caller now overwrites what it passed; the returned object must not change
    if isinstance(caller, pd.DataFrame):
        caller.iloc[:, :] = GARBAGE
    else:
        caller[...] = GARBAGE
    pr = lambda out, tag: {"state": "None", "since": 0, "total": 0, "recs": [-2, -2], "nums": flat(out), "tag": tag}
    e = {"a": pr(out_a, ""), "b": pr(out_b, "; ".join(flags)), "fresh": False, "cmp": True, "off": 0, "note": kind}
    return {"cfg": {"rel": "Equal", "fam": "injector:" + kind}, "ev": [e], "kind": kind, "frame": frame, "seed": rng_seed}
