"""Product (two-run) scenarios on the real detectors: projections, family table, twin protocols."""
import copy
import hashlib

import numpy as np
import pandas as pd

from .core import num, st, recs as recs_


def _f(v):
    return num(float(np.asarray(v, dtype=float).ravel()[0]))


def proj(det):
    if hasattr(det, "total_samples"):
        total, since = det.total_samples, det.samples_since_reset
    elif hasattr(det, "total_batches"):
        total, since = det.total_batches, det.batches_since_reset
    else:
        total, since = det.total_updates, det.updates_since_reset
    r = recs_(list(det.retraining_recs)) if hasattr(det, "retraining_recs") else [-2, -2]
    nums, tag = [], ""
    name = type(det).__name__
    try:
        if name == "PageHinkley":
            df = det.to_dataframe()
            if len(df):
                row = df.iloc[-1]
                nums = [_f(row[c]) for c in ("page_hinkley_values", "page_hinkley_differences", "theta_threshold", "minimum_sum_values", "maximum_sum_values", "mean_values")]
        elif name == "CUSUM":
            nums = [_f(det.target) if det.target is not None else "None", _f(det.sd_hat) if det.sd_hat is not None else "None",
                    _f(det._upper_bound[-1]), _f(det._lower_bound[-1])]
        elif name == "STEPD":
            nums = [_f(det.recent_accuracy()), _f(det.past_accuracy()), _f(det.overall_accuracy())]
        elif name in ("ADWIN", "ADWINAccuracy"):
            nums = [_f(det.mean()), _f(det.variance())]
        elif name in ("HDDDM", "CDBD"):
            t = det.total_batches
            nums = [_f(det.current_distance) if hasattr(det, "current_distance") else "None",
                    _f(det.epsilon_values[t]) if t in det.epsilon_values else "None",
                    _f(det.thresholds[t]) if t in det.thresholds else "None", num(len(det.reference))]
        elif name in ("KdqTreeStreaming", "KdqTreeBatch"):
            nums = [_f(det._test_dist) if det._test_dist is not None else "None",
                    _f(det._critical_dist) if det._critical_dist is not None else "None"]
        elif name == "NNDVI":
            tag = hashlib.md5(np.ascontiguousarray(np.asarray(det.reference_batch, dtype=float)).tobytes()).hexdigest()[:12]
            last = getattr(det, "_verif_last", None)
            if last:
                nums = [_f(last[0]), _f(last[1]), num(last[2])]
        elif name == "MD3":
            rd = det.reference_distribution
            nums = [_f(det.curr_margin_density), _f(rd["md"]), _f(rd["md_std"]), _f(rd["acc"]), _f(rd["acc_std"]), num(int(rd["len"]))]
            tag = "waiting=%d labelled=%d" % (int(bool(det.waiting_for_oracle)), 0 if det.oracle_data is None else len(det.oracle_data))
        elif name == "PCACD":
            nums = [num(det.num_pcs or 0), _f(det._change_score[-1]), num(len(det._change_score))]
    except Exception as ex:  # noqa
        tag = "projection failed: " + type(ex).__name__
    return {"state": st(det.drift_state), "since": int(since), "total": int(total), "recs": r, "nums": nums, "tag": tag, "thr": _thr(det, name)}


def _thr(det, name):
    """the critical value the detector currently compares its statistic with ("None" when there is none / it cannot be read)"""
    try:
        if name in ("KdqTreeStreaming", "KdqTreeBatch"):
            return _f(det._critical_dist) if det._critical_dist is not None else "None"
        if name == "NNDVI":
            last = getattr(det, "_verif_last", None)
            return _f(last[1]) if last else "None"
        if name in ("HDDDM", "CDBD"):
            t = det.total_batches
            return _f(det.thresholds[t]) if t in det.thresholds else "None"
    except Exception:  # noqa
        pass
    return "None"


def seed(s, t):
    np.random.seed((s * 7919 + t) % (2 ** 32))


def step_event(a, b, fresh=False, cmp=True, off=0, note=""):
    return {"a": proj(a), "b": proj(b), "fresh": bool(fresh), "cmp": bool(cmp), "off": int(off), "note": note}


# --------------------------------------------------------------------------- family table
def families():
    from menelaus.concept_drift import DDM, EDDM, STEPD, ADWINAccuracy, LinearFourRates
    from menelaus.change_detection import ADWIN, CUSUM, PageHinkley
    from menelaus.data_drift import KdqTreeStreaming, KdqTreeBatch, HDDDM, CDBD, NNDVI, PCACD
    return {
        "DDM": dict(cls=DDM, kind="err"), "EDDM": dict(cls=EDDM, kind="err"), "STEPD": dict(cls=STEPD, kind="err"),
        "ADWINAccuracy": dict(cls=ADWINAccuracy, kind="err"), "LinearFourRates": dict(cls=LinearFourRates, kind="err"),
        "ADWIN": dict(cls=ADWIN, kind="val"), "CUSUM": dict(cls=CUSUM, kind="val"), "PageHinkley": dict(cls=PageHinkley, kind="val"),
        "KdqTreeStreaming": dict(cls=KdqTreeStreaming, kind="row"), "PCACD": dict(cls=PCACD, kind="row"),
        "KdqTreeBatch": dict(cls=KdqTreeBatch, kind="batch"), "HDDDM": dict(cls=HDDDM, kind="batch"),
        "CDBD": dict(cls=CDBD, kind="batch"), "NNDVI": dict(cls=NNDVI, kind="batch"),
    }


def make(fam, p):
    det = families()[fam]["cls"](**p)
    if fam == "NNDVI" and hasattr(det, "_compute_drift_threshold"):
        # NNDVI does not keep its distance / threshold: observe them where update() computes the threshold
        # (the distance is a pure function of the same arguments).  Absent helper -> nothing is observed.
        from menelaus.partitioners import NNSpacePartitioner
        inner = det._compute_drift_threshold

        def observed(M, v_ref, v_test, *a, **kw):
            theta = inner(M, v_ref, v_test, *a, **kw)
            try:
                det._verif_last = (float(NNSpacePartitioner.compute_nnps_distance(M, v_ref, v_test)), float(theta), int(M.shape[0]))
            except Exception:  # noqa
                det._verif_last = None
            return theta
        det._compute_drift_threshold = observed
    return det


def feed(fam, det, item, **kw):
    k = families()[fam]["kind"]
    if k == "err":
        det.update(item[0], item[1], **kw)
    elif k == "val":
        det.update(item, **kw)
    elif k == "row":
        det.update(np.array([item], dtype=float), **kw)
    else:
        det.update(np.array(item, dtype=float), **kw)


def default_params(fam, rng):
    return {
        "DDM": lambda: dict(n_threshold=rng.choice([3, 8, 15]), warning_scale=rng.choice([1.0, 1.5]), drift_scale=rng.choice([2.0, 2.5])),
        "EDDM": lambda: dict(n_threshold=rng.choice([3, 8]), warning_thresh=rng.choice([0.95, 0.99]), drift_thresh=rng.choice([0.7, 0.9])),
        "STEPD": lambda: dict(window_size=rng.choice([4, 8, 12]), alpha_warning=rng.choice([0.2, 0.1]), alpha_drift=rng.choice([0.05, 0.01])),
        "ADWINAccuracy": lambda: dict(delta=rng.choice([0.1, 0.3]), new_sample_thresh=rng.choice([1, 4]), window_size_thresh=4, subwindow_size_thresh=2),
        "LinearFourRates": lambda: dict(time_decay_factor=0.75, warning_level=0.1, detect_level=0.02, burn_in=5, num_mc=100, subsample=rng.choice([1, 2]), round_val=2),
        "ADWIN": lambda: dict(delta=rng.choice([0.05, 0.3]), new_sample_thresh=rng.choice([1, 4]), window_size_thresh=4, subwindow_size_thresh=2),
        "CUSUM": lambda: dict(burn_in=rng.choice([4, 8]), threshold=rng.choice([3.0, 6.0]), delta=rng.choice([0.05, 0.5]), direction=rng.choice([None, "positive", "negative"])),
        "PageHinkley": lambda: dict(burn_in=rng.choice([0, 5, 10]), threshold=rng.choice([3.0, 10.0]), delta=rng.choice([0.01, 0.1]), direction=rng.choice(["positive", "negative"])),
        "KdqTreeStreaming": lambda: dict(window_size=rng.choice([8, 12]), persistence=rng.choice([0.1, 0.3]), alpha=rng.choice([0.05, 0.2]), bootstrap_samples=20, count_ubound=rng.choice([2, 4])),
        "PCACD": lambda: dict(window_size=20, divergence_metric=rng.choice(["kl", "intersection"]), sample_period=0.1, delta=0.05),
        "KdqTreeBatch": lambda: dict(alpha=rng.choice([0.05, 0.2]), bootstrap_samples=20, count_ubound=rng.choice([4, 8])),
        "HDDDM": lambda: dict(detect_batch=rng.choice([1, 2, 3]), statistic=rng.choice(["stdev", "tstat"]), significance=rng.choice([0.5, 0.2]), subsets=3),
        "CDBD": lambda: dict(detect_batch=rng.choice([1, 2, 3]), statistic="stdev", significance=rng.choice([0.5, 1.0]), subsets=3),
        "NNDVI": lambda: dict(k_nn=3, sampling_times=30, alpha=rng.choice([0.05, 0.2])),
    }[fam]()


def gen_items(fam, rng, n):
    """a history with several regime changes (items in the family's input form)"""
    k = families()[fam]["kind"]
    if k == "err":
        out, p = [], 0.1
        while len(out) < n:
            p = rng.choice([0.03, 0.15, 0.5, 0.85])
            for _ in range(rng.randint(10, 40)):
                e = 1 if rng.random() < p else 0
                if fam == "LinearFourRates":
                    yt = rng.randint(0, 1)
                    out.append((yt, yt if not e else 1 - yt))
                else:
                    out.append((1, 1 - e))
        return out[:n]
    if k == "val":
        out = []
        while len(out) < n:
            mu, sd = rng.uniform(-3, 8), rng.uniform(0.3, 1.5)
            out += [round(rng.gauss(mu, sd), 3) for _ in range(rng.randint(12, 45))]
        return out[:n]
    if k == "row":
        out = []
        d = 3 if fam == "PCACD" else 2
        while len(out) < n:
            c = [rng.randint(-20, 20) for _ in range(d)]
            for _ in range(rng.randint(15, 50)):
                out.append([x + (rng.gauss(0, 2) if fam == "PCACD" else rng.randint(-3, 3)) for x in c])
        return out[:n]
    out = []
    d = 1 if fam == "CDBD" else 2
    c, spread = [rng.randint(-5, 5) for _ in range(d)], rng.randint(4, 9)
    for _ in range(n):
        if rng.random() < 0.35:
            c = [x + rng.choice([-1, 1]) * rng.randint(4, 25) for x in c]
            spread = rng.randint(3, 12)
        out.append([[x + rng.randint(0, spread) for x in c] for _ in range(rng.choice([12, 16, 24, 30]))])
    return out


# --------------------------------------------------------------------------- C02: clean slate after a drift
def clean_slate(fam, p, items, s, setref_at=(), user_reset=False, no_initial_ref=False, reuse=False):
    """A: one detector over the whole history.  B: a NEW detector after every drift of A (same constructor parameters,
    documented carry-over), fed only what arrives afterwards, under the same seed per step.
    user_reset: the caller also calls reset() right after every reported drift (as the docstrings recommend); for the
    detectors whose reset() equals the automatic restart nothing changes, and KdqTreeBatch - whose reset() drops the
    reference - must then behave like a new detector WITHOUT a reference (its next batch becomes the reference).
    no_initial_ref (KdqTreeBatch): no set_reference at the start, the first update provides the reference.
    reuse (row / batch families): the long run A reads everything from ONE preallocated buffer the caller refills in place before each call (the
    twin gets a snapshot): the reference a detector promotes after a drift is the VALUES of the drifted batch, not whatever the buffer holds later."""
    kind = families()[fam]["kind"]
    pool = np.zeros((64, 8), dtype=float)

    def arr(x):
        v = np.array(x, dtype=float)
        if not reuse or kind not in ("row", "batch"):
            return v
        if v.ndim == 1:
            v = v.reshape(1, -1)
        view = pool[:v.shape[0], :v.shape[1]]
        view[...] = v
        return view
    a = make(fam, p)
    b = make(fam, p)
    ev = []
    fresh_pending, off = False, 0
    history = []
    t0 = 0
    drops_ref = fam == "KdqTreeBatch"
    if kind == "batch" and not (no_initial_ref and drops_ref):
        seed(s, 0)
        a.set_reference(arr(items[0]))
        seed(s, 0)
        b.set_reference(np.array(items[0], dtype=float))
        ev.append(step_event(a, b, fresh=True, off=0, note="set_reference"))
        t0 = 1
    last_batch = items[0] if kind == "batch" else None
    for t in range(t0, len(items)):
        x = items[t]
        if kind == "batch" and t in setref_at:
            # set_reference at an arbitrary point = a new detector started on that reference
            off = proj(a)["total"]
            seed(s, t)
            a.set_reference(arr(x))
            b = make(fam, p)
            seed(s, t)
            b.set_reference(np.array(x, dtype=float))
            ev.append(step_event(a, b, fresh=True, cmp=False, off=off, note="set_reference"))   # outputs are compared from the next update on
            fresh_pending = False
            last_batch = x
            continue
        fresh = False
        if a.drift_state == "drift":
            off = proj(a)["total"]
            pp = dict(p)
            if fam == "CUSUM":       # documented carry-over: mean / deviation of the last burn_in observations
                tail = np.array(history[-p["burn_in"]:], dtype=float)
                pp.update(target=float(np.mean(tail)), sd_hat=float(np.std(tail)))
            if user_reset:
                a.reset()
            b = make(fam, pp)
            if kind == "batch" and not (user_reset and drops_ref):      # documented carry-over: the drifted batch is the reference
                seed(s, t)
                b.set_reference(np.array(last_batch, dtype=float))
            fresh = True
        ea = eb = None
        seed(s, t)
        try:
            if reuse and kind in ("row", "batch"):
                a.update(arr(x))
            else:
                feed(fam, a, x)
        except ValueError as ex:
            ea = "raised ValueError"
        seed(s, t)
        try:
            feed(fam, b, x)
        except ValueError as ex:
            eb = "raised ValueError"
        history.append(x)
        last_batch = x
        e = step_event(a, b, fresh=fresh, off=off, note="update")
        if ea or eb:
            # (CUSUM refuses to go on when the deviation it works with is 0: the long run and its fresh twin must agree on that too)
            e["a"]["tag"], e["b"]["tag"] = str(ea), str(eb)
            e["a"]["nums"], e["b"]["nums"] = [], []
            ev.append(e)
            break
        ev.append(e)
    return {"cfg": {"rel": "EqualShifted"}, "ev": ev, "fam": fam, "params": p, "items": items, "seed": s, "setref_at": list(setref_at),
            "user_reset": bool(user_reset), "no_initial_ref": bool(no_initial_ref), "reuse": bool(reuse)}


def sabotage(trace, rng):
    ks = [k for k, e in enumerate(trace["ev"]) if e["cmp"]]
    if not ks:
        return None
    k = rng.choice(ks)
    e = trace["ev"][k]
    if trace["cfg"]["rel"] in ("FirstDriftNotLater", "WarningsSuperset", "EqualWhileAgree"):
        return None
    e["b"]["since"] += 1
    return trace, k + 1, "since of B"


# --------------------------------------------------------------------------- generic two-run comparison
def two_runs(fam, pa, pb, items, s, rel, feed_a=None, feed_b=None, pre_a=None, pre_b=None, restrict=None, extra=None):
    """run A (params pa) and B (params pb) over the same items under the same seed per step; record both projections"""
    kind = families()[fam]["kind"]
    a, b = make(fam, pa), make(fam, pb)
    ev = []
    fa = feed_a or (lambda d, x, t: feed(fam, d, x))
    fb = feed_b or (lambda d, x, t: feed(fam, d, x))
    t0 = 0
    if kind == "batch":
        seed(s, 0)
        a.set_reference((pre_a or (lambda x, t: np.array(x, dtype=float)))(items[0], 0))
        seed(s, 0)
        b.set_reference((pre_b or (lambda x, t: np.array(x, dtype=float)))(items[0], 0))
        t0 = 1
    for t in range(t0, len(items)):
        seed(s, t)
        fa(a, items[t], t)
        seed(s, t)
        fb(b, items[t], t)
        e = step_event(a, b)
        if restrict:
            e["a"]["nums"], e["b"]["nums"] = restrict(e["a"]["nums"]), restrict(e["b"]["nums"])
        ev.append(e)
    cfg = {"rel": rel, "fam": fam}
    out = {"cfg": cfg, "ev": ev, "fam": fam, "pa": pa, "pb": pb, "items": items, "seed": s}
    if extra:
        out.update(extra)
    return out
