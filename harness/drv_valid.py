"""Driver for C14: call sequences (well-formed and malformed inputs in every container type) on real
detectors, next to a twin that only ever sees the well-formed calls in a canonical container."""
import itertools
import random

import numpy as np
import pandas as pd

from .core import st, num


# --------------------------------------------------------------------------- detectors under test
def bare_stream():
    from menelaus.detector import StreamingDetector

    class Bare(StreamingDetector):
        def update(self, X, y_true=None, y_pred=None):
            X, y_true, y_pred = self._validate_input(X, y_true, y_pred)
            super().update(X, y_true, y_pred)
            self.last = float(np.sum(X))

        def reset(self):
            super().reset()
    return Bare()


def bare_batch():
    from menelaus.detector import BatchDetector

    class Bare(BatchDetector):
        def update(self, X, y_true=None, y_pred=None):
            X, y_true, y_pred = self._validate_input(X, y_true, y_pred)
            super().update(X, y_true, y_pred)
            self.last = float(np.sum(X))

        def set_reference(self, X, y_true=None, y_pred=None):
            X, _, _ = self._validate_input(X, None, None)
            self.last = float(np.sum(X))

        def reset(self):
            super().reset()
    return Bare()


class _YOnly:
    """an error-based detector driven through its label arguments only: update(y) = det.update(y_true=y, y_pred=y)"""

    def __init__(self, det):
        self.det = det

    def update(self, y):
        self.det.update(y, y)

    def __getattr__(self, a):
        return getattr(self.__dict__["det"], a)


def _mk(name):
    from menelaus.change_detection import ADWIN, CUSUM, PageHinkley
    from menelaus.concept_drift import DDM, STEPD
    from menelaus.data_drift import KdqTreeStreaming, KdqTreeBatch, HDDDM, CDBD, NNDVI, PCACD
    return {
        "BareStream": bare_stream, "BareBatch": bare_batch,
        "DDM(y)": lambda: _YOnly(DDM(n_threshold=2, warning_scale=1, drift_scale=2)),
        "STEPD(y)": lambda: _YOnly(STEPD(window_size=2)),
        "KdqTreeStreaming": lambda: KdqTreeStreaming(window_size=3, bootstrap_samples=8, count_ubound=1, persistence=0.3),
        "ADWIN": lambda: ADWIN(delta=0.5, new_sample_thresh=1, window_size_thresh=2, subwindow_size_thresh=1),
        "PageHinkley": lambda: PageHinkley(delta=0.01, threshold=1.0, burn_in=1),
        "CUSUM": lambda: CUSUM(burn_in=3, threshold=1.5, delta=0.01),
        "PCACD": lambda: PCACD(window_size=6, divergence_metric="intersection"),
        "KdqTreeBatch": lambda: KdqTreeBatch(bootstrap_samples=8, count_ubound=2),
        "HDDDM": lambda: HDDDM(detect_batch=3, statistic="stdev", significance=0.5),
        "CDBD": lambda: CDBD(detect_batch=3, statistic="stdev", significance=0.5),
        # detect_batch=1: the second half of every new reference is replayed as an internal proxy batch (counted like an update)
        "HDDDM1": lambda: HDDDM(detect_batch=1, statistic="stdev", significance=0.5),
        "CDBD1": lambda: CDBD(detect_batch=1, statistic="tstat", significance=0.2),
        "NNDVI": lambda: NNDVI(k_nn=2, sampling_times=8, alpha=0.2),
    }[name]()


DETECTORS = {  # name -> (kind, univariate, needs set_reference, admissible increments of total per update)
    "BareStream": ("stream", False, False, [1]), "KdqTreeStreaming": ("stream", False, False, [1]),
    "ADWIN": ("stream", True, False, [1]), "PageHinkley": ("stream", True, False, [1]), "CUSUM": ("stream", True, False, [1]),
    "DDM(y)": ("stream", True, False, [1]), "STEPD(y)": ("stream", True, False, [1]),
    "BareBatch": ("batch", False, True, [1]), "KdqTreeBatch": ("batch", False, True, [1]),
    "HDDDM": ("batch", False, True, [1]), "CDBD": ("batch", True, True, [1]), "NNDVI": ("batch", False, True, [1]),
    "HDDDM1": ("batch", False, True, [1, 2]), "CDBD1": ("batch", True, True, [1, 2]),
}

NAMES = {1: ["a"], 2: ["a", "b"], 3: ["a", "b", "c"]}


def digest(det):
    """everything the detector reports publicly, as an exactly comparable string"""
    total = getattr(det, "total_samples", None)
    if total is None:
        total, since = det.total_batches, det.batches_since_reset
    else:
        since = det.samples_since_reset
    parts = [st(det.drift_state), str(total), str(since)]
    if hasattr(det, "retraining_recs"):
        parts.append(str(list(det.retraining_recs)))
    if hasattr(det, "last"):
        parts.append(repr(det.last))
    for a in ("mean", "variance"):
        if hasattr(det, a) and callable(getattr(det, a)):
            try:
                parts.append(repr(float(getattr(det, a)())))
            except Exception:  # noqa
                pass
    for a in ("target", "sd_hat", "current_distance", "beta", "_test_dist", "_critical_dist", "_sum", "_min", "_max"):
        if hasattr(det, a):
            v = getattr(det, a)
            try:
                parts.append("%s=%r" % (a, None if v is None else float(np.asarray(v, dtype=float).ravel()[0])))
            except Exception:  # noqa
                pass
    return "|".join(parts)


# --------------------------------------------------------------------------- inputs
def concrete(inp, variant, values):
    """abstract input + container variant + a (rows x width) value matrix -> the object handed to the detector"""
    a = np.array(values, dtype=float).reshape(inp["rows"], inp["width"])
    if inp["frame"]:
        if inp["names"] == "#range":          # pandas' default column labels 0..d-1 (`pd.DataFrame(values)`): names like any others
            return pd.DataFrame(a)
        return pd.DataFrame(a, columns=inp["names"].split(","))
    if variant == "array2d":
        return a
    if variant == "list2d":
        return a.tolist()
    if variant == "array1d":
        return a.ravel()
    if variant == "list1d":
        return a.ravel().tolist()
    if variant == "series":
        return pd.Series(a.ravel())
    if variant == "scalar":
        return float(a.ravel()[0])
    raise KeyError(variant)


def variants(kind, inp):
    """container variants that denote exactly (rows, width) under the documented coercion"""
    if inp["frame"]:
        return ["frame"]
    if inp["rows"] == 0:
        return ["array2d"]          # (an empty list would denote a row of width 0, not zero rows of this width)
    v = ["array2d", "list2d"]
    if kind == "stream" and inp["rows"] == 1:
        v += ["array1d", "list1d", "series"]
        if inp["width"] == 1:
            v += ["scalar"]
    if kind == "batch" and inp["width"] == 1:
        v += ["array1d", "list1d", "series"]
        if inp["rows"] == 1:
            v += ["scalar"]
    return v


def alphabet(kind, name=""):
    if name.endswith("(y)"):     # label inputs: one column, no remembered names; only the number of observations matters
        return ([{"frame": f, "rows": r, "width": 1, "names": "a" if f else "-"} for f in (False, True) for r in (1, 2)]
                + [{"frame": False, "rows": 1, "width": 2, "names": "-"}, {"frame": True, "rows": 1, "width": 2, "names": "a,b"}])   # several labels laid out as ONE row
    out = []
    for rows in ((1, 2) if kind == "stream" else (1, 3)):
        for w in (1, 2, 3):
            out.append({"frame": False, "rows": rows, "width": w, "names": "-"})
            for nm in ([",".join(NAMES[w])] + (["a,c"] if w == 2 else [])):
                out.append({"frame": True, "rows": rows, "width": w, "names": nm})
    # frames that carry pandas' default labels 0..d-1: those are their column names (never the names a, b, ... established before or after)
    okrows = 1 if kind == "stream" else 3
    out += [{"frame": True, "rows": okrows, "width": 1, "names": "#range"}, {"frame": True, "rows": okrows, "width": 2, "names": "#range"}]
    # no observation at all (an empty filter result, `df.iloc[0:0]`, a (0, d) array): neither "exactly one" nor "at least two"
    out += [{"frame": False, "rows": 0, "width": 1, "names": "-"}, {"frame": False, "rows": 0, "width": 2, "names": "-"},
            {"frame": True, "rows": 0, "width": 1, "names": "a"}]
    return out


def valid_by_rule(kind, univ, dim, cols, inp):
    rows_ok = inp["rows"] == 1 if kind == "stream" else inp["rows"] >= 2
    names_ok = (not inp["frame"]) or cols == "-" or inp["names"] == cols
    return rows_ok and names_ok and (dim == -1 or inp["width"] == dim) and ((not univ) or inp["width"] == 1)


def run(name, calls, seed):
    """calls: list of (op, inp, variant).  The twin receives the calls that are well-formed by the
    property's rule, as 2-D ndarrays.  Both runs are seeded identically per call."""
    kind, univ, needs_ref, incs = DETECTORS[name]
    det, twin = _mk(name), _mk(name)
    rng = random.Random(seed)
    reuse, bufs = seed % 3 == 0, {}
    dim, cols = -1, "-"
    ev = []
    nvalid, prev_refused = 0, False
    for t, (op, inp, variant) in enumerate(calls):
        vals = [[float(rng.randint(-4, 9)) + (0.5 if rng.random() < 0.3 else 0.0) + 0.125 * (t % 7) for _ in range(inp["width"])] for _ in range(inp["rows"])]
        if rng.random() < 0.3:
            vals = [[v + 20 for v in r] for r in vals]
        if reuse and not inp["frame"] and inp["rows"] > 0:
            variant = "array1d" if (variant in ("array1d", "list1d", "series", "scalar") and "array1d" in variants(kind, inp)) else "array2d"
        X = concrete(inp, variant, vals)
        if reuse and isinstance(X, np.ndarray):
            # "containers don't matter": the caller reads every observation into ONE preallocated array per shape and hands that same object over
            # each time (the twin gets fresh arrays) - equivalent values, identical outputs
            buf = bufs.setdefault((X.shape, str(X.dtype)), np.empty_like(X))
            buf[...] = X
            X = buf
        ok = valid_by_rule(kind, univ, dim, cols, inp)
        raised = "None"
        # seed schedule: one seed per WELL-FORMED call (index nvalid).  A refused call is seeded like the
        # next well-formed call and that call then continues the stream, because a detector may perform
        # its pending post-drift re-initialisation (which draws random numbers) inside the refused call.
        if not prev_refused:
            np.random.seed(500 + nvalid)
        try:
            getattr(det, op)(X)
        except Exception as ex:  # noqa
            raised = type(ex).__name__
        tout = "-"
        if ok:
            dim = inp["width"]
            if inp["frame"] and cols == "-":
                cols = inp["names"]
            np.random.seed(500 + nvalid)
            nvalid += 1
            try:
                getattr(twin, op)(np.array(vals, dtype=float).reshape(inp["rows"], inp["width"]))
                tout = digest(twin)
            except Exception as ex:  # noqa
                tout = "twin raised " + type(ex).__name__
        prev_refused = not ok
        total = getattr(det, "total_samples", None)
        if total is None:
            total = det.total_batches
        ev.append({"op": op, "inp": inp, "variant": variant, "raised": raised, "total": int(total), "drift": det.drift_state == "drift",
                   "out": digest(det), "tout": tout if raised == "None" or tout.startswith("twin") else "-"})
    return {"cfg": {"kind": kind, "univ": univ, "incs": incs}, "ev": ev, "name": name, "seed": seed,
            "calls": [[op, inp, v] for op, inp, v in calls]}


def sabotage(trace, rng):
    ks = [k for k, e in enumerate(trace["ev"]) if e["raised"] == "None" and e["op"] == "update"]
    if not ks:
        return None
    k = rng.choice(ks)
    e = trace["ev"][k]
    if rng.random() < 0.5:
        e["total"] += 1
        return trace, k + 1, "total"
    e["raised"] = "ValueError"
    return trace, k + 1, "raised"
