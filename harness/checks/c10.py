"""C10 - NN-DVI measures neighbourhood density change between exactly the given batches."""
import itertools

from .. import drv_nn as D
from .. import containers as C
from ..core import pmap


def run(ctx):
    q, rng = ctx.quick, ctx.rng
    ctx.model("MC_NNSP", "MC_NNSP%s.cfg" % ("" if q else "_deep"), require_actions=("Choose",))
    # every pair of samples of sizes (1..a) x (1..b) on a small lattice, k = 1..3, on the real partitioner
    g, na, nbb = (2, 2, 2) if q else (3, 2, 2)
    pts = [[x, y] for x in range(g) for y in range(g)]
    work = []
    for la in range(1, na + 1):
        for lb in range(1, nbb + 1):
            for s1 in itertools.product(pts, repeat=la):
                for s2 in itertools.product(pts, repeat=lb):
                    nd = len({tuple(p) for p in s1 + s2})
                    for k in (1, 2, 3):
                        if k <= nd:
                            work.append(([list(p) for p in s1], [list(p) for p in s2], k))
    traces = pmap(D.build_trace, work, procs=4)
    ctx.validate("NNSP", traces, "every pair of samples (sizes 1..%d x 1..%d) on a %dx%d lattice, k = 1..3" % (na, nbb, g, g),
                 sabotage=D.sabotage, replay=lambda i: {"mode": "build", "s1": traces[i]["s1"], "s2": traces[i]["s2"], "k": traces[i]["k"]},
                 nontrivial=lambda t: len(t["s1"]) != len(t["s2"]))
    # random larger pairs, unequal sizes, duplicates within and across samples
    n2 = 150 if q else 1500
    t2 = []
    for _ in range(n2):
        d = rng.randint(1, 3)
        a = D.lattice(rng, rng.randint(1, 30), d, [0] * d, rng.randint(1, 6))
        b = D.lattice(rng, rng.randint(1, 30), d, [rng.randint(0, 3)] * d, rng.randint(1, 6))
        if rng.random() < 0.3:
            b = b + a[: rng.randint(1, len(a))]
        nd = len({tuple(p) for p in a + b})
        t2.append(D.build_trace(a, b, rng.randint(1, min(nd, 8))))
    ctx.validate("NNSP", t2, "random sample pairs of unequal sizes with duplicates", sabotage=D.sabotage,
                 replay=lambda i: {"mode": "build", "s1": t2[i]["s1"], "s2": t2[i]["s2"], "k": t2[i]["k"]},
                 nontrivial=lambda t: len(t["s1"]) != len(t["s2"]))
    # one partitioner object reused for several builds (re-split / swapped / whole-pool samples, k changed in between)
    t2b = [D.build_session(D.resplit_steps(rng)) for _ in range(60 if q else 600)]
    ctx.validate("NNSP", t2b, "sessions on ONE partitioner object: the same pooled points split differently, k changed between builds", sabotage=D.sabotage,
                 replay=lambda i: {"mode": "session", "steps": t2b[i]["steps"]}, nontrivial=lambda t: len(t["ev"]) > 2)
    # NNDVI histories
    n3, nb = (40, 8) if q else (300, 10)
    t3 = []
    for i in range(n3):
        p = {"k_nn": rng.choice([2, 3, 5]), "sampling_times": rng.choice([40, 80, 3, 6]), "alpha": rng.choice([0.01, 0.05, 0.2, 0.2, 0.6, 0.75, 0.9])}       # (significance levels above one half are legal: the threshold is then BELOW the mean of the fitted normal)
        if i % 3 != 0:
            C.choose(rng, p, C.BATCH_KINDS)
        if i % 3 == 1:
            p["halves"] = True       # fractional coordinates; batches on the even lattice arrive with an integer dtype
            p["feed"]["kinds"] = [k for k in p["feed"]["kinds"] if k in ("intarray", "lists", "intframe")] or ["intarray"]
        if i % 6 == 5:
            p["tiny"] = True
            p.pop("feed", None)
        if i % 6 == 3:
            p["offset"] = True
            p.pop("feed", None)
            p.pop("halves", None)
        hist = D.nndvi_history(rng, nb, equal_sizes=(i % 4 == 0), some_even=bool(p.get("halves")))
        p["k_nn"] = D.safe_k(hist, p["k_nn"])
        t3.append(D.run_nndvi(p, hist, seed=rng.randrange(10 ** 6)))
    for i in range(8 if q else 60):
        # k_nn larger than the number of rows of some batches (and of some references, once such a batch has been adopted)
        k = rng.choice([8, 10])
        p = {"k_nn": k, "sampling_times": rng.choice([40, 80]), "alpha": rng.choice([0.01, 0.05, 0.2])}
        t3.append(D.run_nndvi(p, D.nndvi_history_wide(rng, nb, k), seed=rng.randrange(10 ** 6)))
    ctx.validate("NNSP", t3, "NNDVI batch histories (unequal batch sizes)", sabotage=D.sabotage,
                 replay=lambda i: {"mode": "nndvi", "params": t3[i]["params"], "script": t3[i]["script"], "seed": t3[i]["seed"]},
                 nontrivial=lambda t: any(e["state"] == "drift" for e in t["ev"]))
    ctx.assumptions += ["which of several equidistant points sklearn returns as neighbours is not specified: any valid k-nearest relation is accepted",
                        "the permutation threshold is bound to the value returned by the wrapped static helper and must lie in an independently computed 6-sigma bracket",
                        "integer lattice points"]
    return ctx.finish()


def replay(ctx, bundle):
    r = bundle["replay"]
    if r["mode"] == "session":
        t = D.build_session([tuple(x) for x in r["steps"]])
    elif r["mode"] == "build":
        t = D.build_trace(r["s1"], r["s2"], r["k"])
    else:
        t = D.run_nndvi(r["params"], [tuple(s) for s in r["script"]], r["seed"])
    ctx.validate("NNSP", [t], "replay", replay=lambda i: r)
    return ctx.finish()
