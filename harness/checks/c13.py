"""C13 - each election returns exactly what its voting rule says for every vote pattern."""
from .. import tlc
from ..core import st


class Stub:
    def __init__(self, s):
        self.drift_state = None if s == "None" else s


def elections():
    from menelaus.ensemble import (SimpleMajorityElection, MinimumApprovalElection, OrderedApprovalElection,
                                   ConfirmedElection)
    return SimpleMajorityElection, MinimumApprovalElection, OrderedApprovalElection, ConfirmedElection


def execute(case):
    """run one TLC-generated case on the real class; returns (observed, expected)"""
    Maj, Min, Ord, Conf = elections()
    dets = [Stub(s) for s in case["v"]]
    k = case["kind"]
    if k == "majority":
        return st(Maj()(dets)), case["out"]
    if k == "min":
        return st(Min(approvals_needed=case["a"])(dets)), case["out"]
    if k == "ordered":
        return st(Ord(approvals_needed=case["a"], confirmations_needed=case["c"])(dets)), case["out"]
    e = Conf(sensitivity=case["sens"], wait_time=case["wait"])
    e.wait_period_counters = list(case["cnt"])      # public attribute: replay per transition
    out = st(e(dets))
    return [out, list(e.wait_period_counters)], [case["out"], list(case["cnt2"])]


def walk(rng, n, sens, wait, steps):
    _, _, _, Conf = elections()
    e = Conf(sensitivity=sens, wait_time=wait)
    ev = []
    bias = rng.choice([(6, 2, 2), (3, 3, 4), (8, 1, 1)])
    for _ in range(steps):
        v = rng.choices(["None", "warning", "drift"], weights=bias, k=n)
        out = st(e([Stub(s) for s in v]))
        ev.append({"op": "call", "v": v, "out": out, "cnt": list(e.wait_period_counters)})
    return {"cfg": {"n": n, "sens": sens, "wait": wait}, "ev": ev, "state_key": "out"}


def sabotage(trace, rng):
    k = rng.randrange(len(trace["ev"]))
    e = trace["ev"][k]
    if rng.random() < 0.5:
        e["out"] = {"None": "drift", "warning": "None", "drift": "warning"}[e["out"]]
        return trace, k + 1, "verdict"
    i = rng.randrange(len(e["cnt"]))
    e["cnt"][i] += 1
    return trace, k + 1, "counter"


def apalache_extra(ctx):
    """thorough tier only: inductive invariant of ConfirmedElection's counters for ANY number of calls (Apalache).
    An addition to the TLC runs; skipped (and said so) if the tool is unavailable or too slow."""
    import os
    import shutil
    import subprocess
    out = tlc.scratch("apa")
    spec = os.path.join(tlc.SPEC, "Apa_Confirmed.tla")
    res = {}
    for name, args in (("Init => IndInv", ["--init=Init", "--length=0"]), ("IndInv /\\ Next => IndInv'", ["--init=IndInit", "--length=1"])):
        try:
            r = subprocess.run(["apalache-mc", "check", "--cinit=CInit", "--inv=IndInv", "--out-dir=" + out] + args + [spec],
                               capture_output=True, text=True, timeout=600, cwd=tlc.scratch("apacwd") and os.path.dirname(out))
            ok = "EXITCODE: OK" in r.stdout
            res[name] = "discharged" if ok else "FAILED"
            if not ok and "EXITCODE: ERROR" in r.stdout and "error" in r.stdout.lower() and "Checker reports" in r.stdout:
                raise tlc.MachineryError("Apalache refutes the inductive invariant of ConfirmedElection: " + r.stdout[-800:])
        except (OSError, subprocess.TimeoutExpired) as ex:
            res[name] = "skipped (%s)" % type(ex).__name__
    shutil.rmtree(out, ignore_errors=True)
    ctx.parts["apalache:Apa_Confirmed (4 members, wait_time 0..5, sensitivity 0..5, unbounded calls)"] = res


def run(ctx):
    q, rng = ctx.quick, ctx.rng
    suffix = "" if q else "_deep"
    ctx.model("MC_Election", "MC_Election%s.cfg" % suffix, require_actions=("Call",))
    # B: every case / transition enumerated by TLC, executed on the real classes
    cases, res = tlc.generate("Gen_Election", "Gen_Election%s.cfg" % suffix)
    if len(cases) < 1000:
        raise tlc.MachineryError("Gen_Election emitted only %d cases" % len(cases))
    kinds = {}
    bad = 0
    for c in cases:
        kinds[c["kind"]] = kinds.get(c["kind"], 0) + 1
        try:
            got, want = execute(c)
        except Exception as ex:  # noqa
            got, want = "raised " + type(ex).__name__, c.get("out")
        if got != want:
            bad += 1
            if bad <= 5:
                ctx.violation("election case %r: real class gave %r, specification says %r" % (c, got, want),
                              {"stage": "replay of TLC-enumerated cases", "case": c, "observed": got, "expected": want,
                               "replay": {"case": c}})
    # the stateless elections once more, now with ONE election object per parameter set serving every case in a shuffled order (member lists
    # of different lengths alternate): the verdict is a function of the vote pattern, not of what the object was asked before
    Maj, Min, Ord, _ = elections()
    objs, reused_bad = {}, 0
    order = [c for c in cases if c["kind"] in ("majority", "min", "ordered")]
    rng.shuffle(order)
    for c in order:
        key = (c["kind"], c.get("a", 0), c.get("c", 0))
        if key not in objs:
            objs[key] = Maj() if c["kind"] == "majority" else (Min(approvals_needed=c["a"]) if c["kind"] == "min"
                                                              else Ord(approvals_needed=c["a"], confirmations_needed=c["c"]))
        try:
            got = st(objs[key]([Stub(s) for s in c["v"]]))
        except Exception as ex:  # noqa
            got = "raised " + type(ex).__name__
        if got != c["out"]:
            reused_bad += 1
            if reused_bad <= 3:
                ctx.violation("election case %r on an election object that has served other member lists before: real class gave %r, specification says %r"
                              % (c, got, c["out"]), {"stage": "reused election objects", "case": c, "observed": got, "expected": c["out"], "replay": {"case": c}})
    ctx.parts["reused election objects"] = {"cases": len(order), "objects": len(objs), "mismatches": reused_bad}
    ctx.traces += len(cases)
    ctx.events += len(cases)
    ctx.nontrivial += sum(1 for c in cases if c["out"] != "None")
    ctx.states += res["distinct"]
    ctx.transitions += res["generated"]
    ctx.parts["behaviours:Gen_Election"] = {"cases_replayed": len(cases), "by_kind": kinds, "mismatches": bad,
                                            "exhaustive_within_bound": True}
    ctx.sample({"stage": "TLC-enumerated case executed on the real class", "case": cases[len(cases) // 2]})
    # bite: a corrupted expectation must be noticed by the replayer
    c = dict(cases[-1])
    c["out"] = "drift" if c["out"] != "drift" else "None"
    g, w = execute(c)
    if g == w:
        raise tlc.MachineryError("replayer does not compare verdicts")
    # A: random walks of ConfirmedElection with more members / longer waits than the model bound
    nt, ln = (60, 300) if q else (400, 1000)
    traces = []
    for _ in range(nt):
        n = rng.randint(1, 7)
        traces.append(walk(rng, n, rng.randint(0, n + 1), rng.randint(0, 6), ln))
    # the stateless elections on LARGE member lists (up to 64 members; the model and the enumerated cases stop at a handful): exact ties, one vote
    # more / fewer than the quorum, warnings as filler - a count is a count at any size
    big = []
    for n in range(6, 65 if q else 129):
        ev = []
        for kind in ("majority", "min", "ordered"):
            for nd in sorted({n // 2, n // 2 + 1, max(0, n // 2 - 1), (n + 1) // 2, rng.randint(0, n)}):
                a, c = (0, 0) if kind == "majority" else (rng.choice([nd, nd + 1, max(0, nd - 1), n, n + 1]), rng.choice([0, 1, 2]) if kind == "ordered" else 0)
                if kind == "ordered":
                    a = max(0, a - c)
                v = ["drift"] * nd + [rng.choice(["None", "warning"]) for _ in range(n - nd)]
                rng.shuffle(v)
                obj = Maj() if kind == "majority" else (Min(approvals_needed=a) if kind == "min" else Ord(approvals_needed=a, confirmations_needed=c))
                ev.append({"op": "stateless", "kind": kind, "a": a, "c": c, "v": v, "out": st(obj([Stub(x) for x in v])), "cnt": []})
        big.append({"cfg": {"n": 1, "sens": 0, "wait": 0}, "ev": ev})
    ctx.validate("Election", big, "stateless elections on member lists of 6..%d members (ties and near-ties)" % (64 if q else 128),
                 replay=lambda i: {"big": big[i]["ev"]}, nontrivial=lambda t: any(e["out"] != "None" for e in t["ev"]))
    ctx.validate("Election", traces, "ConfirmedElection random walks", sabotage=sabotage,
                 replay=lambda i: {"walk": traces[i]["cfg"], "votes": [e["v"] for e in traces[i]["ev"]]},
                 nontrivial=lambda t: any(e["out"] != "None" for e in t["ev"]))
    if not q:
        apalache_extra(ctx)
    ctx.assumptions += ["members are stub objects exposing only drift_state (elections read nothing else)"]
    return ctx.finish(extra={"exhaustive": True})


def replay(ctx, bundle):
    r = bundle["replay"]
    if "case" in r:
        got, want = execute(r["case"])
        if got != want:
            ctx.violation("election case %r: real class gave %r, specification says %r" % (r["case"], got, want), bundle)
        ctx.traces += 1
        ctx.nontrivial += 2
        ctx.states = ctx.transitions = 1
        return ctx.finish()
    if "big" in r:
        Maj, Min, Ord, _ = elections()
        ev = []
        for e in r["big"]:
            obj = Maj() if e["kind"] == "majority" else (Min(approvals_needed=e["a"]) if e["kind"] == "min" else Ord(approvals_needed=e["a"], confirmations_needed=e["c"]))
            ev.append(dict(e, out=st(obj([Stub(x) for x in e["v"]]))))
        ctx.validate("Election", [{"cfg": {"n": 1, "sens": 0, "wait": 0}, "ev": ev}], "replay", replay=lambda i: r)
        return ctx.finish()
    _, _, _, Conf = elections()
    w = r["walk"]
    e = Conf(sensitivity=w["sens"], wait_time=w["wait"])
    ev = []
    for v in r["votes"]:
        out = st(e([Stub(s) for s in v]))
        ev.append({"op": "call", "v": v, "out": out, "cnt": list(e.wait_period_counters)})
    ctx.validate("Election", [{"cfg": w, "ev": ev}], "replay", replay=lambda i: r)
    return ctx.finish()
