"""C07 - HDDDM/CDBD alarm exactly when the distance change exceeds the adaptive bound."""
from .. import drv_hdm as D
from .. import containers as C


def run(ctx):
    q, rng = ctx.quick, ctx.rng
    for db in (1, 2, 3):
        ctx.model("MC_HDM", "MC_HDM_db%d.cfg" % db, require_actions=("SetRef", "Upd", "Rst"))
    n, nb = (90, 12) if q else (700, 16)
    ts = []
    for i in range(n):
        p = D.params(rng)
        if i % 6 == 1:      # fractional data, references on the even lattice in integer-typed containers
            p["halves"] = True
            p["feed"] = {"seed": rng.randrange(10 ** 6), "kinds": [rng.choice(["intarray", "lists", "intframe", "objarray", "objframe"])]}
        elif i % 3 != 0:      # two thirds of the histories draw their containers per call (arrays in either order, frames, lists, int dtypes, views)
            C.choose(rng, p, C.BATCH_KINDS + C.LOOSE_BATCH_KINDS)
        ts.append(D.run(p, D.history(rng, p, nb, bads=(i % 2 == 0)), seed=rng.randrange(10 ** 6), frame=rng.random() < 0.6))      # (every other history with refused calls in between)
    for i in range(24 if q else 200):
        t = D.grazing(rng)
        if t:
            ts.append(t)
    ctx.parts["grazing histories"] = sum(1 for t in ts if "graze" in t)
    ctx.validate("HDM", ts, "HDDDM / CDBD histories on integer data", sabotage=D.sabotage,
                 replay=lambda i: {"params": ts[i]["params"], "script": ts[i]["script"], "seed": ts[i]["seed"], "frame": ts[i]["frame"]},
                 nontrivial=lambda t: sum(1 for e in t["ev"] if e["state"] == "drift") >= 2)
    ctx.assumptions += ["integer-valued data (histogram counts are exact in the specification)",
                        "Student-t quantiles from scipy.stats.t.ppf (trusted table)",
                        "the bootstrapped first epsilon of an epoch is taken from the public epsilon list as an input of the specification"]
    return ctx.finish()


def replay(ctx, bundle):
    r = bundle["replay"]
    t = D.run(r["params"], [tuple(s) for s in r["script"]], r["seed"], r["frame"])
    ctx.validate("HDM", [t], "replay", replay=lambda i: r)
    return ctx.finish()
