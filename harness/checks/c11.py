"""C11 - PCA-CD scores each component on aligned supports and alarms via Page-Hinkley."""
from .. import drv_pca as D
from .. import containers as C


def run(ctx):
    q, rng = ctx.quick, ctx.rng
    ctx.model("MC_PCACD", "MC_PCACD%s.cfg" % ("" if q else "_deep"), require_actions=("Sample", "Reset"))
    n = 28 if q else 250
    ts = []
    for i in range(n):
        p = D.params(rng)
        if i % 7 == 0:
            p["divergence_metric"], p["ev_threshold"] = "intersection", 0.99     # several components, histogram metric
        p["neighbour"] = i % 7 == 0 or i % 5 == 1
        if i % 3 == 1:
            p["bads"] = sorted(rng.sample(range(3, 6 * p["window_size"]), rng.randint(1, 4)))     # refused calls at arbitrary stream positions
        if i % 3 != 0:
            C.choose(rng, p, ("array2d", "array1d", "list2d", "list1d", "frame", "series", "reused1d", "reused2d", "tuple"))
        W = p["window_size"]
        d = rng.randint(2, 4)
        xs = D.stream(rng, rng.randint(6, 9) * W, d, W)
        if i % 4 == 3:   # an idle (constant) feature over the first reference windows that wakes up later
            xs = D.idle_feature_stream(rng, len(xs), d, W)
            p["online_scaling"] = i % 8 == 3 or p["online_scaling"]
        if i % 7 == 5:   # whole-number rows first (integer-typed containers), fractional rows later; raw projection
            xs = D.int_then_float_stream(rng, len(xs), d, W)
            p["online_scaling"] = False
            p["feed"] = {"seed": rng.randrange(10 ** 6), "kinds": [rng.choice(["intarray", "list2d", "list1d", "tuple"])]}
        if i % 9 == 0:   # a stream whose test window equals its reference window
            xs = xs[:W] + xs[:W] + xs[W:]
        resets = sorted(rng.sample(range(2, len(xs)), rng.randint(0, 1)))
        if i % 5 == 2:   # housekeeping resets all through the sliding phase (every third of a window): the caller's reset() restarts a counter, not the test
            resets = list(range(2 * W + 3, len(xs), max(2, W // 3)))
        ts.append(D.run(p, xs, resets, rng.randrange(10 ** 6)))
    ctx.validate("PCACD", ts, "multivariate streams with level / variance / correlation shifts", sabotage=D.sabotage,
                 replay=lambda i: {"params": ts[i]["params"], "xs": ts[i]["xs"], "resets": ts[i]["resets"], "seed": ts[i]["seed"]},
                 nontrivial=lambda t: any(e["state"] == "drift" for e in t["ev"]))
    # online_scaling given as a truthy value that is not the builtin True (numpy.bool_(True) from a comparison, the integer 1): whichever of the two
    # modes the detector takes it for, it has to be THAT mode in every epoch - each run is recorded twice, once against each mode's kernel, and one of
    # the two traces must be a behaviour of the specification
    from .. import tlc
    pairs = []
    for i in range(4 if q else 24):
        p = D.params(rng)
        p["flag"] = ("npbool", "one")[i % 2]
        W = p["window_size"]
        xs = D.restless_stream(rng, rng.randint(7, 9) * W, 3, W) if i % 4 < 2 else D.stream(rng, rng.randint(7, 9) * W, 3, W)
        xs = [[10.0 * v + 50.0 * (j + 1) for j, v in enumerate(r)] for r in xs]          # far from standardised: the two modes differ visibly
        s_ = rng.randrange(10 ** 6)
        pairs.append([D.run(dict(p, online_scaling=m), xs, (), s_) for m in (True, False)])
    va, _ = tlc.validate_traces("Trace_PCACD", [{"cfg": a["cfg"], "ev": a["ev"]} for a, b in pairs])
    vb, _ = tlc.validate_traces("Trace_PCACD", [{"cfg": b["cfg"], "ev": b["ev"]} for a, b in pairs])
    ctx.traces += len(pairs)
    ctx.events += sum(len(a["ev"]) for a, b in pairs)
    ctx.parts["truthy online_scaling flags"] = {"runs": len(pairs), "taken as True": sum(1 for v in va if v is None), "taken as False": sum(1 for v in vb if v is None)}
    for k, (a, b) in enumerate(pairs):
        if va[k] is not None and vb[k] is not None:
            ctx.violation("PCACD(online_scaling=%s): the run is neither the online-scaling behaviour (rejected at event %d, %s) nor the raw one (rejected at event %d, %s)"
                          % ("numpy.bool_(True)" if a["params"]["flag"] == "npbool" else "1", va[k]["at"], va[k]["clauses"][:2], vb[k]["at"], vb[k]["clauses"][:2]),
                          {"stage": "truthy flags", "replay": {"params": a["params"], "xs": a["xs"], "resets": [], "seed": a["seed"], "both": True}})
    ctx.assumptions += ["PCA, standardisation, kernel density estimates and histograms are computed by sklearn / numpy (kernel table); the "
                        "specification decides which windows they are applied to, when, and what follows from the score",
                        "_change_score is an optional private read; when readable it drives the embedded Page-Hinkley test bit-exactly"]
    return ctx.finish()


def replay(ctx, bundle):
    r = bundle["replay"]
    if r.get("both"):
        from .. import tlc
        ts2 = [D.run(dict(r["params"], online_scaling=m), r["xs"], (), r["seed"]) for m in (True, False)]
        vs = [tlc.validate_traces("Trace_PCACD", [{"cfg": t["cfg"], "ev": t["ev"]}])[0][0] for t in ts2]
        ctx.traces += 1
        if all(v is not None for v in vs):
            ctx.violation("PCACD with a truthy online_scaling flag is neither of the two modes: %r" % [v["at"] for v in vs], bundle)
        return ctx.finish()
    t = D.run(r["params"], r["xs"], r["resets"], r["seed"])
    ctx.validate("PCACD", [t], "replay", replay=lambda i: r)
    return ctx.finish()
