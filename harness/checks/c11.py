"""C11 - PCA-CD scores each component on aligned supports and alarms via Page-Hinkley."""
from .. import drv_pca as D
from .. import containers as C


def run(ctx):
    q, rng = ctx.quick, ctx.rng
    ctx.model("MC_PCACD", "MC_PCACD%s.cfg" % ("" if q else "_deep"), require_actions=("Sample", "Reset"))
    n = 28 if q else 250
    ts = []
    for i in range(n):
        p = D.params(rng)
        if i % 7 == 0:
            p["divergence_metric"], p["ev_threshold"] = "intersection", 0.99     # several components, histogram metric
        p["neighbour"] = i % 7 == 0 or i % 5 == 1
        if i % 3 != 0:
            C.choose(rng, p, ("array2d", "array1d", "list2d", "list1d", "frame", "series", "reused1d", "reused2d", "tuple"))
        W = p["window_size"]
        d = rng.randint(2, 4)
        xs = D.stream(rng, rng.randint(6, 9) * W, d, W)
        if i % 4 == 3:   # an idle (constant) feature over the first reference windows that wakes up later
            xs = D.idle_feature_stream(rng, len(xs), d, W)
            p["online_scaling"] = i % 8 == 3 or p["online_scaling"]
        if i % 7 == 5:   # whole-number rows first (integer-typed containers), fractional rows later; raw projection
            xs = D.int_then_float_stream(rng, len(xs), d, W)
            p["online_scaling"] = False
            p["feed"] = {"seed": rng.randrange(10 ** 6), "kinds": [rng.choice(["intarray", "list2d", "list1d", "tuple"])]}
        if i % 9 == 0:   # a stream whose test window equals its reference window
            xs = xs[:W] + xs[:W] + xs[W:]
        resets = sorted(rng.sample(range(2, len(xs)), rng.randint(0, 1)))
        ts.append(D.run(p, xs, resets, rng.randrange(10 ** 6)))
    ctx.validate("PCACD", ts, "multivariate streams with level / variance / correlation shifts", sabotage=D.sabotage,
                 replay=lambda i: {"params": ts[i]["params"], "xs": ts[i]["xs"], "resets": ts[i]["resets"], "seed": ts[i]["seed"]},
                 nontrivial=lambda t: any(e["state"] == "drift" for e in t["ev"]))
    ctx.assumptions += ["PCA, standardisation, kernel density estimates and histograms are computed by sklearn / numpy (kernel table); the "
                        "specification decides which windows they are applied to, when, and what follows from the score",
                        "_change_score is an optional private read; when readable it drives the embedded Page-Hinkley test bit-exactly"]
    return ctx.finish()


def replay(ctx, bundle):
    r = bundle["replay"]
    t = D.run(r["params"], r["xs"], r["resets"], r["seed"])
    ctx.validate("PCACD", [t], "replay", replay=lambda i: r)
    return ctx.finish()
