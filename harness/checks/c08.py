"""C08 - the kdq-tree partitions space consistently and conserves counts."""
import itertools

import numpy as np

from .. import drv_kdq as D


def run(ctx):
    q, rng = ctx.quick, ctx.rng
    ctx.model("MC_KdqTree", "MC_KdqTree%s.cfg" % ("" if q else "_deep"), require_actions=("AddPoint", "BuildIt", "FillIt"))
    ctx.model("MC_KdqTree", "MC_KdqTree_1d.cfg", require_actions=("AddPoint", "BuildIt", "FillIt"))
    # exhaustive small cases on the real class: every multiset of <= np points on a g x g grid
    g, npts = (3, 3) if q else (4, 4)
    pts = [[x, y] for x in range(g) for y in range(g)]
    traces = []
    for k in range(1, npts + 1):
        for ms in itertools.combinations_with_replacement(range(len(pts)), k):
            data = [pts[i] for i in ms]
            for ub in (1, 2):
                cfgp = {"ub": ub, "lbnum": rng.choice([0, 1]), "lbden": 4}
                extra = [pts[rng.randrange(len(pts))] for _ in range(rng.randint(0, 3))]
                script = [("build", data), ("fill", data, 2, True), ("kl", 1, 2), ("fill", extra, 3, False),
                          ("fill", extra, 3, False), ("kl", 1, 3), ("plotly", 1, 3)]
                traces.append(D.session(cfgp, script))
    ctx.validate("KdqTree", traces, "every multiset of <= %d points on a %dx%d grid, build + fills" % (npts, g, g),
                 sabotage=D.sabotage, replay=lambda i: {"cfg": traces[i]["cfg"], "script": traces[i]["script"]},
                 nontrivial=lambda t: not t["ev"][0]["tree"]["leaf"])
    # random larger sessions: 1-4 dimensions, duplicates, clusters, fills under two ids, resets, queries
    n1, n2 = (150, 20) if q else (1500, 200)
    t2 = []
    for i in range(n1 + n2):
        cfgp, script = D.random_session(rng, big=i >= n1)
        t2.append(D.session(cfgp, script))
    # a few sessions with LARGE fills (thousands of rows, with and without reset): counts must still be exact
    for i in range(2 if q else 10):
        d = rng.randint(1, 3)
        data = D.random_points(rng, 300, d, "clusters")
        big = D.random_points(rng, rng.randint(5000, 9000), d, "clusters")
        big2 = D.random_points(rng, rng.randint(4097, 6000), d, "wide")
        cfgp = {"ub": rng.choice([8, 20]), "lbnum": 0, "lbden": 4}
        script = [("build", data), ("fill", big, 2, True), ("kl", 1, 2), ("fill", big2, 2, True), ("kl", 1, 2), ("fill", big, 3, False),
                  ("fill", big2, 3, False), ("kl", 2, 3)]
        t2.append(D.session(cfgp, script))
    # a tree built from an integer-typed sample (the even lattice, halved), filled with fractional samples
    for i in range(40 if q else 300):
        d = rng.randint(1, 3)
        style = rng.choice(["grid", "clusters", "wide", "flag"])
        data = [[2 * (v // 2) for v in r] for r in D.random_points(rng, rng.randint(8, 120), d, style)]
        other = D.random_points(rng, rng.randint(1, 150), d, style)
        cfgp = {"ub": rng.choice([1, 2, 4, 8]), "lbnum": 0, "lbden": 4, "halves": True}
        script = [("build", data), ("fill", other, 2, True), ("kl", 1, 2), ("fill", D.random_points(rng, rng.randint(1, 40), d, style), 3, False),
                  ("fill", other, 3, False), ("kl", 2, 3), ("plotly", 1, 2)]
        t2.append(D.session(cfgp, script))
    # samples in narrow integer types whose values sit near the top (or bottom) of the type's range: a cut is the midpoint of the VALUES
    for i in range(30 if q else 240):
        d = rng.randint(1, 3)
        dt, lo, hi = rng.choice([("uint8", 120, 255), ("uint8", 0, 255), ("int16", -32000, -18000), ("int16", 20000, 32767), ("uint16", 40000, 65535)])          # (32-bit values near the top of their range are left out: TLC's own integers are 32-bit)
        data = [[rng.randint(lo, hi) for _ in range(d)] for _ in range(rng.randint(8, 100))]
        other = [[rng.randint(lo, hi) for _ in range(d)] for _ in range(rng.randint(1, 80))]
        cfgp = {"ub": rng.choice([1, 2, 4, 8]), "lbnum": rng.choice([0, 1]), "lbden": rng.choice([8, 16]), "dtype": dt}
        script = [("build", data), ("fill", data, 2, True), ("kl", 1, 2), ("fill", other, 3, False), ("kl", 1, 3), ("plotly", 1, 3)]
        t2.append(D.session(cfgp, script))
    # ONE partitioner object built again and again (the detectors never do that, the public class allows it): each build() starts a new
    # tree, so leaves, counts, divergences and the flattened view are those of a new object built from that sample alone (finding F24)
    for i in range(40 if q else 300):
        d = rng.randint(1, 3)
        cfgp = {"ub": rng.choice([1, 2, 4, 8]), "lbnum": rng.choice([0, 1]), "lbden": 4}
        script = []
        for b in range(rng.randint(2, 4)):
            style = rng.choice(["grid", "clusters", "wide", "flag"])
            data = D.random_points(rng, rng.randint(1, 60), d, style)
            other = D.random_points(rng, rng.randint(1, 60), d, style)
            script += [("build", data), ("fill", other, 2, rng.random() < 0.5), ("kl", 1, 2)]
            if rng.random() < 0.5:
                script += [("fill", data, 3, False), ("kl", 2, 3), ("plotly", 1, 2)]
        t2.append(D.session(cfgp, script))
    ctx.validate("KdqTree", t2, "random sessions (1-4 dims, up to 400 points) + large fills + rebuilt partitioners", sabotage=D.sabotage,
                 replay=lambda i: {"cfg": t2[i]["cfg"], "script": t2[i]["script"]},
                 nontrivial=lambda t: not t["ev"][0]["tree"]["leaf"])
    # real-valued data: the relational clauses (refill reproduces the build counts, divergence 0) on decimal grids and continuous values
    t4 = [D.refill_trace(rng) for _ in range(150 if q else 1500)]
    for n_ in ([70000, 140000] if q else [70000, 140000, 300000, 66000, 131073]):
        t4.append(D.big_refill(rng.randrange(10 ** 6), n_, rng.choice([1, 2]), rng.choice([500, 2000])))
    if np.finfo(np.longdouble).nmant > 52:
        t4 += [D.longdouble_refill(rng) for _ in range(60 if q else 600)]
    t4 += [D.adjacent_refill(rng) for _ in range(40 if q else 400)]
    ctx.validate("KdqTree", t4, "real-valued build data filed again under another id", replay=lambda i: {"mode": "refill", "cfg": t4[i]["cfg"], "data": t4[i]["data"]},
                 nontrivial=lambda t: len(t["ev"][0]["cb"]) > 1)
    ctx.assumptions += ["data are integer-valued (all quantities of the construction are then exact in the specification)",
                        "KL / KSS values are compared with relative tolerance 1e-7"]
    return ctx.finish()


def replay(ctx, bundle):
    r = bundle["replay"]
    if r.get("mode") == "refill" and isinstance(r["data"], dict):
        ctx.validate("KdqTree", [D.big_refill(r["data"]["seed"], r["data"]["n"], r["data"]["d"], r["cfg"]["ub"])], "replay", replay=lambda i: r)
        return ctx.finish()
    if r.get("mode") == "refill":
        ctx.validate("KdqTree", [D.refill_from(r["cfg"], r["data"])], "replay", replay=lambda i: r)
        return ctx.finish()
    t = D.session(r["cfg"], [tuple(s) for s in r["script"]])
    ctx.validate("KdqTree", [t], "replay", replay=lambda i: r)
    return ctx.finish()
