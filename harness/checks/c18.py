"""C18 - batch detectors ignore the order of rows inside a batch."""
import numpy as np

from .. import product as P


def perm_pre(rng_seed):
    """reference / batch -> the same rows in a random order (deterministic per (seed, t))"""
    def f(x, t):
        a = np.array(x, dtype=float)
        return a[np.random.RandomState((rng_seed * 31 + t) % (2 ** 32)).permutation(len(a))]
    return f


def sort_pre(descending=False):
    """reference / batch -> the same rows in lexicographic order (a sorted export is a permutation like any other)"""
    def f(x, t):
        rows = sorted(x, reverse=descending)
        return np.array(rows, dtype=float)
    return f


def dup_index_frame(order, s):
    """A and B receive DataFrames whose row labels repeat; B's rows are permuted together with their labels"""
    import pandas as pd
    inner = pre_of(order, s)

    def f(x, t):
        a = np.array(x, dtype=float)
        df = pd.DataFrame(a, columns=["c%d" % i for i in range(a.shape[1])], index=[i % 3 for i in range(len(a))])
        if order == "orig":
            return df
        perm = np.random.RandomState((s * 31 + t) % (2 ** 32)).permutation(len(a))
        return df.iloc[perm]
    return f


def loose_rows(order, s, kind):
    """the batch as a container of Python numbers (records decoded from JSON / CSV: ints where the value is whole, floats elsewhere) - an
    object-typed ndarray, a DataFrame with object columns, or nested lists; order "orig" keeps the rows as they are"""
    import pandas as pd
    inner = pre_of(order, s) if order != "orig" else (lambda x, t: np.array(x, dtype=float))

    def f(x, t):
        rows = [[int(v) if float(v).is_integer() else float(v) for v in r] for r in inner(x, t).tolist()]
        if kind == "lists":
            return rows
        o = np.empty((len(rows), len(rows[0])), dtype=object)
        for i, r in enumerate(rows):
            for j, v in enumerate(r):
                o[i, j] = v
        return o if kind == "objarray" else pd.DataFrame(o, columns=["c%d" % j for j in range(o.shape[1])])
    return f


def halved(items, rng):
    """integer-valued batches in which a share of the rows is moved by one half: whole-number rows and fractional rows side by side"""
    return [[[v + 0.5 for v in r] if rng.random() < 0.5 else list(r) for r in b] for b in items]


def pre_of(order, s):
    return perm_pre(s) if order == "perm" else sort_pre(order == "desc")


def run(ctx):
    q, rng = ctx.quick, ctx.rng
    # model level: the three specifications use a batch only through multiset-valued operators; checked on the
    # small models by permuting the build / batch data
    ctx.model("MC_KdqTree", "MC_KdqTree.cfg")
    ctx.model("MC_NNSP", "MC_NNSP.cfg")
    ctx.model("MC_HDM", "MC_HDM_db3.cfg")
    ctx.model("MC_Perm", "MC_Perm.cfg")       # every permutation of small batches: distances, trees, partitions unchanged
    per = 6 if q else 42
    full, dist_only = [], []
    for fam in ("HDDDM", "CDBD", "KdqTreeBatch", "NNDVI"):
        for i in range(per):
            p = P.default_params(fam, rng)
            if fam in ("HDDDM", "CDBD"):
                p["detect_batch"] = 3 if i % 2 == 0 else 2
            items = P.gen_items(fam, rng, rng.randint(8, 12))
            if fam == "NNDVI" and i % 2 == 0:
                n0 = len(items[0])
                items = [b[:n0] + b[: max(0, n0 - len(b))] for b in items]
            s = rng.randrange(10 ** 6)
            order = ("perm", "asc", "desc")[(i // 2) % 3] if fam != "NNDVI" else "perm"
            pre = pre_of(order, s)
            fb = lambda d, x, t, pre=pre: d.update(pre(x, t))
            if fam in ("HDDDM", "CDBD") and p["detect_batch"] == 2:
                # thresholds of detect_batch=2 legitimately depend on row positions (bootstrap): distances only, while decisions agree
                dist_only.append(P.two_runs(fam, p, p, items, s, "EqualWhileAgree", feed_b=fb, pre_b=pre, restrict=lambda nums: nums[:1], extra={"order": order}))
            else:
                full.append(P.two_runs(fam, p, p, items, s, "Equal", feed_b=fb, pre_b=pre,
                                       restrict=(lambda nums: nums) if fam != "NNDVI" else None, extra={"order": order}))
    # large batches (thousands of rows) for the kdq-tree detector: row order must still not matter
    for i in range(3 if q else 8):
        p = P.default_params("KdqTreeBatch", rng)
        p.update(count_ubound=50)
        c = [rng.randint(-20, 20), rng.randint(-20, 20)]
        items = [[[c[0] + rng.randint(0, 40), c[1] + rng.randint(0, 40)] for _ in range(rng.randint(4200, 6000))] for _ in range(3)]
        s = rng.randrange(10 ** 6)
        srt = lambda x, t: np.array(sorted(x), dtype=float)         # B sees every batch sorted by its first feature
        full.append(P.two_runs("KdqTreeBatch", p, p, items, s, "Equal", feed_b=lambda d, x, t, srt=srt: d.update(srt(x, t)), pre_b=srt, extra={"order": "asc"}))
    # HDDDM / CDBD on batches of tens of thousands of rows (the reference grows past 2^15, 2^16 rows while nothing drifts): histograms count every row
    for fam in ("HDDDM", "CDBD"):
        for i in range(2 if q else 6):
            p = dict(P.default_params(fam, rng), detect_batch=3)
            d = 1 if fam == "CDBD" else 2
            c = [rng.randint(-5, 5) for _ in range(d)]
            # values rise with the row position inside every batch (a time-ordered extract): rows that stand early differ from rows that stand late
            items = [[[x + (40 * r) // n_ + rng.randint(0, 6) for x in c] for r in range(n_)] for n_ in [rng.randint(12000, 36000) for _ in range(4)]]
            s = rng.randrange(10 ** 6)
            order = ("perm", "desc")[i % 2]
            pre = pre_of(order, s)
            full.append(P.two_runs(fam, p, p, items, s, "Equal", feed_b=lambda d, x, t, pre=pre: d.update(pre(x, t)), pre_b=pre, restrict=lambda nums: nums, extra={"order": order}))
    # every batch is submitted two or three times in a row (a caller that re-sends a batch it got an alarm for, a stalled feed): the second
    # submission is one more batch like any other - run A re-sends it row for row, run B re-sends another permutation of it
    for fam in ("NNDVI", "KdqTreeBatch", "HDDDM", "CDBD"):
        for i in range(4 if q else 16):
            p = P.default_params(fam, rng)
            if fam in ("HDDDM", "CDBD"):
                p["detect_batch"] = 3
            base = P.gen_items(fam, rng, rng.randint(4, 6))
            if fam == "NNDVI":
                n0 = len(base[0])
                base = [b[:n0] + b[: max(0, n0 - len(b))] for b in base]
            items = [base[0]]
            for b in base[1:]:
                items += [b] * rng.choice([2, 2, 3])
            s = rng.randrange(10 ** 6)
            pre = pre_of("perm", s)
            full.append(P.two_runs(fam, p, p, items, s, "Equal", feed_b=lambda d, x, t, pre=pre: d.update(pre(x, t)), pre_b=pre,
                                   restrict=(lambda nums: nums) if fam != "NNDVI" else None, extra={"order": "perm"}))
    # kdq-tree with a binding minimum cell size (cutpoint_proportion_lbound well above its tiny default, data on a scale of hundreds, deep trees):
    # the cell-size bound is a property of the FEATURES' ranges, whatever rows come first
    for i in range(9 if q else 30):
        p = P.default_params("KdqTreeBatch", rng)
        p.update(count_ubound=rng.choice([3, 6]), cutpoint_proportion_lbound=rng.choice([0.05, 0.125, 0.25]))
        dd = rng.choice([2, 3])
        sc = [rng.choice([40, 300, 1000]) for _ in range(dd)]
        items = [[[rng.randint(0, sc[a]) for a in range(dd)] for _ in range(rng.randint(150, 260))] for _ in range(4)]
        s = rng.randrange(10 ** 6)
        order = ("perm", "asc", "desc")[i % 3]
        pre = pre_of(order, s)
        full.append(P.two_runs("KdqTreeBatch", p, p, items, s, "Equal", feed_b=lambda d, x, t, pre=pre: d.update(pre(x, t)), pre_b=pre, extra={"order": order}))
    # DataFrames with repeated row labels: every row counts, wherever it stands
    for fam in ("HDDDM", "KdqTreeBatch", "NNDVI"):
        for i in range(2 if q else 10):
            p = P.default_params(fam, rng)
            if fam == "HDDDM":
                p["detect_batch"] = 3
            items = P.gen_items(fam, rng, rng.randint(6, 9))
            s = rng.randrange(10 ** 6)
            pa, pb = dup_index_frame("orig", s), dup_index_frame("perm", s)
            t = P.two_runs(fam, p, p, items, s, "Equal", feed_a=lambda d, x, tt, pa=pa: d.update(pa(x, tt)), pre_a=pa,
                           feed_b=lambda d, x, tt, pb=pb: d.update(pb(x, tt)), pre_b=pb, restrict=(lambda nums: nums) if fam != "NNDVI" else None,
                           extra={"order": "dupindex"})
            full.append(t)
    # a stream that starts by replaying its reference (the first distances of the epoch are exactly equal, the first observed epsilon exactly 0),
    # followed by moderately shifted batches: with detect_batch=3 nothing about the threshold may depend on where a row stands
    for fam in ("HDDDM", "CDBD"):
        for i in range(4 if q else 16):
            p = dict(P.default_params(fam, rng), detect_batch=3)
            d = 1 if fam == "CDBD" else 2
            c, spread = [rng.randint(-5, 5) for _ in range(d)], rng.randint(6, 10)
            ref = [[x + rng.randint(0, spread) for x in c] for _ in range(rng.choice([16, 24, 30]))]
            items = [ref, list(ref), list(ref)]
            for j in range(4):
                sh = rng.choice([1, 2, 3])
                items.append([[x + rng.randint(0, spread) + (sh if rng.random() < 0.6 else 0) for x in c] for _ in range(rng.choice([16, 24]))])
            s = rng.randrange(10 ** 6)
            order = ("perm", "asc", "desc")[i % 3]
            pre = pre_of(order, s)
            full.append(P.two_runs(fam, p, p, items, s, "Equal", feed_b=lambda d_, x, t, pre=pre: d_.update(pre(x, t)), pre_b=pre,
                                   restrict=lambda nums: nums, extra={"order": order}))
    # NN-DVI on three / four coded features with few levels each (many rows tie on the leading columns, exact repeats are frequent and far apart)
    for i in range(6 if q else 30):
        p = P.default_params("NNDVI", rng)
        d = rng.choice([3, 3, 4])
        lv = rng.choice([2, 3])
        items = [[[rng.randint(0, lv - 1 + (1 if (b >= 4 and a == d - 1) else 0)) for a in range(d)] for _ in range(rng.randint(14, 28))] for b in range(rng.randint(7, 9))]
        s = rng.randrange(10 ** 6)
        order = ("perm", "asc", "desc")[i % 3]
        pre = pre_of(order, s)
        full.append(P.two_runs("NNDVI", p, p, items, s, "Equal", feed_b=lambda d_, x, t, pre=pre: d_.update(pre(x, t)), pre_b=pre, extra={"order": order}))
    # the reference handed over AGAIN in mid-history (a periodic re-arming with the training set): verbatim in one run, with its rows in another order in
    # the other - a reference is a multiset both times
    for fam in ("KdqTreeBatch", "HDDDM", "NNDVI"):
        for i in range(6 if q else 24):
            p = P.default_params(fam, rng)
            if fam == "HDDDM":
                p["detect_batch"] = 3
            items = P.gen_items(fam, rng, rng.randint(7, 10))
            s = rng.randrange(10 ** 6)
            again = sorted(rng.sample(range(2, len(items)), 2))
            pre = pre_of(("perm", "asc", "desc")[i % 3], s)
            ident = lambda x, t: np.array(x, dtype=float)

            def feeder(pr, again=again, ref=items[0]):
                def f(d, x, t):
                    if t in again:
                        d.set_reference(pr(ref, 1000 + t))
                    d.update(pr(x, t))
                return f
            t = P.two_runs(fam, p, p, items, s, "Equal", feed_a=feeder(ident), feed_b=feeder(pre), pre_b=pre,
                           restrict=(lambda nums: nums) if fam != "NNDVI" else None, extra={"order": "again:%s:%s" % (("perm", "asc", "desc")[i % 3], ",".join(map(str, again)))})
            full.append(t)
    # loosely typed containers (object arrays / object frames / nested lists of Python ints and floats): what a row IS does not depend on which row leads
    for fam in ("HDDDM", "CDBD", "KdqTreeBatch"):
        for i in range(3 if q else 12):
            p = P.default_params(fam, rng)
            if fam in ("HDDDM", "CDBD"):
                p["detect_batch"] = 3
            items = halved(P.gen_items(fam, rng, rng.randint(6, 9)), rng)
            s = rng.randrange(10 ** 6)
            kind, order = ("objarray", "objframe", "lists")[i % 3], ("asc", "desc", "perm")[(i // 3) % 3]
            pa, pb = loose_rows("orig", s, kind), loose_rows(order, s, kind)
            full.append(P.two_runs(fam, p, p, items, s, "Equal", feed_a=lambda d, x, tt, pa=pa: d.update(pa(x, tt)), pre_a=pa,
                                   feed_b=lambda d, x, tt, pb=pb: d.update(pb(x, tt)), pre_b=pb, restrict=lambda nums: nums,
                                   extra={"order": "loose:%s:%s" % (kind, order)}))
    rep = lambda ts: (lambda i: {"fam": ts[i]["fam"], "pa": ts[i]["pa"], "items": ts[i]["items"], "seed": ts[i]["seed"], "rel": ts[i]["cfg"]["rel"], "order": ts[i].get("order", "perm")})
    # NNDVI's tag is a digest of the retained reference IN ROW ORDER: blank it (the permuted run retains permuted rows)
    for t in full:
        if t["fam"] == "NNDVI":
            for e in t["ev"]:
                e["a"]["tag"] = e["b"]["tag"] = ""
    ctx.validate("Product", full, "original vs row-permuted batches: complete outputs (HDDDM/CDBD detect_batch=3, KdqTreeBatch, NNDVI)",
                 sabotage=P.sabotage, replay=rep(full), nontrivial=lambda t: any(e["a"]["state"] == "drift" for e in t["ev"]))
    ctx.validate("Product", dist_only, "original vs row-permuted batches: distances while decisions agree (detect_batch=2)",
                 replay=rep(dist_only), nontrivial=lambda t: len(t["ev"]) > 3)
    ctx.assumptions += ["same numpy seed before every step in both runs; permutations are drawn from an independent generator"]
    return ctx.finish()


def replay(ctx, bundle):
    r = bundle["replay"]
    if r.get("order") == "dupindex":
        pa, pb = dup_index_frame("orig", r["seed"]), dup_index_frame("perm", r["seed"])
        t = P.two_runs(r["fam"], r["pa"], r["pa"], r["items"], r["seed"], "Equal", feed_a=lambda d, x, tt: d.update(pa(x, tt)), pre_a=pa,
                       feed_b=lambda d, x, tt: d.update(pb(x, tt)), pre_b=pb)
        if r["fam"] == "NNDVI":
            for e in t["ev"]:
                e["a"]["tag"] = e["b"]["tag"] = ""
        ctx.validate("Product", [t], "replay", replay=lambda i: r)
        return ctx.finish()
    if r.get("order", "").startswith("again:"):
        _, order, pos = r["order"].split(":")
        again = [int(v) for v in pos.split(",")]
        pre = pre_of(order, r["seed"])
        ident = lambda x, t: np.array(x, dtype=float)

        def feeder(pr):
            def f(d, x, t):
                if t in again:
                    d.set_reference(pr(r["items"][0], 1000 + t))
                d.update(pr(x, t))
            return f
        t = P.two_runs(r["fam"], r["pa"], r["pa"], r["items"], r["seed"], "Equal", feed_a=feeder(ident), feed_b=feeder(pre), pre_b=pre,
                       restrict=(lambda nums: nums) if r["fam"] != "NNDVI" else None)
        if r["fam"] == "NNDVI":
            for e in t["ev"]:
                e["a"]["tag"] = e["b"]["tag"] = ""
        ctx.validate("Product", [t], "replay", replay=lambda i: r)
        return ctx.finish()
    if r.get("order", "").startswith("loose:"):
        _, kind, order = r["order"].split(":")
        pa, pb = loose_rows("orig", r["seed"], kind), loose_rows(order, r["seed"], kind)
        t = P.two_runs(r["fam"], r["pa"], r["pa"], r["items"], r["seed"], "Equal", feed_a=lambda d, x, tt: d.update(pa(x, tt)), pre_a=pa,
                       feed_b=lambda d, x, tt: d.update(pb(x, tt)), pre_b=pb, restrict=lambda nums: nums)
        ctx.validate("Product", [t], "replay", replay=lambda i: r)
        return ctx.finish()
    pre = pre_of(r.get("order", "perm"), r["seed"])
    fb = lambda d, x, t: d.update(pre(x, t))
    restrict = (lambda nums: nums[:1]) if r["rel"] == "EqualWhileAgree" else None
    t = P.two_runs(r["fam"], r["pa"], r["pa"], r["items"], r["seed"], r["rel"], feed_b=fb, pre_b=pre, restrict=restrict)
    if r["fam"] == "NNDVI":
        for e in t["ev"]:
            e["a"]["tag"] = e["b"]["tag"] = ""
    ctx.validate("Product", [t], "replay", replay=lambda i: r)
    return ctx.finish()
