"""C12 - an ensemble is its election applied to members that run exactly as if alone."""
from .. import drv_ensemble as D


def run(ctx):
    q, rng = ctx.quick, ctx.rng
    ctx.model("MC_Ensemble", "MC_Ensemble%s.cfg" % ("" if q else "_deep"), require_actions=("Upd", "Rst"))
    ns, nb = (30, 16) if q else (200, 100)
    specs = [D.random_spec(rng, "stream") for _ in range(ns)]
    traces = [D.run_stream(s) for s in specs]
    ctx.validate("Ensemble", traces, "StreamingEnsemble vs lone twins", sabotage=D.sabotage,
                 replay=lambda i: traces[i]["spec"],
                 nontrivial=lambda t: len({e["state"] for e in t["ev"]}) > 1 and any(m["state"] == "drift" for e in t["ev"] for m in e["m"]))
    specs = [D.random_spec(rng, "batch") for _ in range(nb)]
    tb = [D.run_batch(s) for s in specs]
    ctx.validate("Ensemble", tb, "BatchEnsemble vs lone twins", sabotage=D.sabotage, replay=lambda i: tb[i]["spec"],
                 nontrivial=lambda t: any(m["state"] == "drift" for e in t["ev"] for m in e["m"]))
    ctx.assumptions += ["twins are deep copies of the freshly constructed members, updated in insertion order under the same numpy seed per step",
                        "the election verdict is recomputed by Election.tla from the logged member states"]
    return ctx.finish()


def replay(ctx, bundle):
    s = bundle["replay"]
    t = D.run_stream(s) if s["kind"] == "stream" else D.run_batch(s)
    ctx.validate("Ensemble", [t], "replay", replay=lambda i: s)
    return ctx.finish()
