"""C12 - an ensemble is its election applied to members that run exactly as if alone."""
from .. import drv_ensemble as D


def run(ctx):
    q, rng = ctx.quick, ctx.rng
    ctx.model("MC_Ensemble", "MC_Ensemble%s.cfg" % ("" if q else "_deep"), require_actions=("Upd", "Rst"))
    ns, nb = (30, 16) if q else (200, 100)
    specs = [D.random_spec(rng, "stream") for _ in range(ns)]
    # every election kind with members that can WARN (a warning next to a drift, ties between the two): a vote is counted for what it is
    for i, ek in enumerate(["majority", "majority", "min", "ordered", "confirmed", "majority"] * (1 if q else 4)):
        sp = D.random_spec(rng, "stream")
        sp["members"] = [["ddm", "stepd"], ["ddm", "eddm", "stepd"], ["ddm", "stepd", "lfr", "eddm"]][i % 3]
        sp["election"] = {"kind": ek, "a": rng.randint(1, len(sp["members"]) - 1), "c": rng.choice([0, 1, 2]) if ek == "confirmed" else rng.randint(0, 1)}
        sp["n"], sp["resets"], sp["replace_at"] = 200, [], -1
        specs.append(sp)
    traces = [D.run_stream(s) for s in specs]
    ctx.validate("Ensemble", traces, "StreamingEnsemble vs lone twins", sabotage=D.sabotage,
                 replay=lambda i: traces[i]["spec"],
                 nontrivial=lambda t: len({e["state"] for e in t["ev"]}) > 1 and any(m["state"] == "drift" for e in t["ev"] for m in e["m"]))
    specs = [D.random_spec(rng, "batch") for _ in range(nb)]
    tb = [D.run_batch(s) for s in specs]
    ctx.validate("Ensemble", tb, "BatchEnsemble vs lone twins", sabotage=D.sabotage, replay=lambda i: tb[i]["spec"],
                 nontrivial=lambda t: any(m["state"] == "drift" for e in t["ev"] for m in e["m"]))
    ctx.assumptions += ["twins are deep copies of the freshly constructed members, updated in insertion order under the same numpy seed per step",
                        "the election verdict is recomputed by Election.tla from the logged member states"]
    return ctx.finish()


def replay(ctx, bundle):
    s = bundle["replay"]
    t = D.run_stream(s) if s["kind"] == "stream" else D.run_batch(s)
    ctx.validate("Ensemble", [t], "replay", replay=lambda i: s)
    return ctx.finish()
