"""C14 - uniform input validation; rejected inputs do no harm; containers don't matter."""
import itertools

from .. import drv_valid as D
from ..core import pmap


def pick_variant(rng, kind, inp):
    return rng.choice(D.variants(kind, inp))


def sequences(rng, name, n):
    kind, univ, needs_ref, _ = D.DETECTORS[name]
    al = D.alphabet(kind, name)
    for seq in itertools.product(al, repeat=n):
        calls = []
        if needs_ref:
            w = 1 if univ else rng.choice([1, 2, 3])
            ref = {"frame": rng.random() < 0.5, "rows": 4, "width": w, "names": "-"}
            if ref["frame"]:
                ref["names"] = ",".join(D.NAMES[w])
            calls.append(("set_reference", ref, pick_variant(rng, kind, ref)))
        calls += [("update", i, pick_variant(rng, kind, i)) for i in seq]
        yield calls


def injected_histories(rng, name, length):
    """a valid history (mixed containers) with one malformed call injected at every position"""
    kind, univ, needs_ref, _ = D.DETECTORS[name]
    w = 1 if univ else rng.choice([2, 3])
    names = ",".join(D.NAMES[w])
    if name.endswith("(y)"):
        return []
    rows = 1 if kind == "stream" else None

    def good():
        f = rng.random() < 0.4
        i = {"frame": f, "rows": rows or rng.randint(4, 9), "width": w, "names": names if f else "-"}
        return i

    base = []
    if needs_ref:
        i = good()
        base.append(("set_reference", i, pick_variant(rng, kind, i)))
    for _ in range(length):
        i = good()
        base.append(("update", i, pick_variant(rng, kind, i)))
    bads = []
    bads.append({"frame": False, "rows": 2 if kind == "stream" else 1, "width": w, "names": "-"})          # wrong row count
    bads.append({"frame": False, "rows": rows or 5, "width": w + 1, "names": "-"})                        # wrong column count
    bads.append({"frame": True, "rows": rows or 5, "width": w + 1, "names": ",".join(D.NAMES[w]) + ",z"})  # wider frame
    bads.append({"frame": True, "rows": rows or 5, "width": w, "names": ",".join("q%d" % k for k in range(w))})  # renamed columns
    bads.append({"frame": True, "rows": 2 if kind == "stream" else 1, "width": w, "names": names})        # frame, wrong rows
    bads.append({"frame": False, "rows": 0, "width": w, "names": "-"})                                      # no rows at all, right width
    bads.append({"frame": True, "rows": 0, "width": w, "names": names})                                     # an empty frame with the right columns
    out = []
    start = 1 if needs_ref else 0
    for pos in range(start, len(base) + 1):
        b = rng.choice(bads)
        # (batch detectors: the malformed input is handed to set_reference as often as to update - a refused call of either kind leaves no trace)
        op = "set_reference" if needs_ref and rng.random() < 0.5 else "update"
        out.append(base[:pos] + [(op, b, pick_variant(rng, kind, b))] + base[pos:])
    return out


def run(ctx):
    q, rng = ctx.quick, ctx.rng
    ctx.model("MC_Validation", "MC_Validation%s.cfg" % ("" if q else "_deep"), require_actions=("Call",))
    work = []
    for name in D.DETECTORS:
        n = (3 if name.startswith("Bare") else 2) if q else (4 if name.startswith("Bare") else 3)
        for calls in sequences(rng, name, n):
            work.append((name, calls, rng.randrange(10 ** 6)))
    traces = pmap(D.run, work)
    rep = lambda ts: (lambda i: {"name": ts[i]["name"], "calls": ts[i]["calls"], "seed": ts[i]["seed"]})
    nt = lambda t: any(e["raised"] != "None" for e in t["ev"]) and any(e["raised"] == "None" for e in t["ev"])
    ctx.validate("Validation", traces, "all call sequences over the input alphabet, 10 detector classes", sabotage=D.sabotage,
                 replay=rep(traces), dev_module="Validation", nontrivial=nt)
    t2 = []
    for name in D.DETECTORS:
        for _ in range(2 if q else 10):
            for calls in injected_histories(rng, name, 8 if q else 14):
                t2.append(D.run(name, calls, seed=rng.randrange(10 ** 6)))
    ctx.validate("Validation", t2, "valid histories with one malformed call injected at every position", sabotage=D.sabotage,
                 replay=rep(t2), dev_module="Validation", nontrivial=nt)
    ctx.assumptions += ["the digest compared with the twin contains drift_state, counters, retraining_recs and the numeric statistics each class exposes",
                        "label inputs (y with several observations) are exercised through DDM and STEPD driven by their label arguments only"]
    return ctx.finish()


def replay(ctx, bundle):
    r = bundle["replay"]
    t = D.run(r["name"], [tuple(c) for c in r["calls"]], r["seed"])
    ctx.validate("Validation", [t], "replay", replay=lambda i: r, dev_module="Validation")
    return ctx.finish()
