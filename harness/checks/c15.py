"""C15 - detectors and injectors never modify or keep live references to caller data."""
from .. import drv_own as D
from .. import product as P
from .. import tlc

INJ = ["swap", "shift", "labelswap", "labeljoin", "brownian", "resample", "dirichlet", "cover"]


def run(ctx):
    q, rng = ctx.quick, ctx.rng
    for cfg in ("MC_Ownership.cfg", "MC_Ownership_alias.cfg"):
        res = tlc.model_check("Ownership", cfg)
        ctx.states += res["distinct"]
        ctx.transitions += res["generated"]
        ctx.parts["model:" + cfg] = {"distinct": res["distinct"], "generated": res["generated"]}
    ts = []
    fams = list(P.families())
    for fam in fams:
        kind = P.families()[fam]["kind"]
        layouts = ["C"] if kind == "err" else D.LAYOUTS
        for layout in layouts:
            for i in range(1 if q else 4):
                p = P.default_params(fam, rng)
                if fam == "CUSUM":
                    p["burn_in"] = 4
                batch = kind == "batch"
                items = P.gen_items(fam, rng, 9 if batch else (70 if fam in ("KdqTreeStreaming", "PCACD", "LinearFourRates") else 120))
                if kind in ("row", "batch") and layout == "mixedframe" and fam == "CDBD":
                    continue
                if layout in ("flat", "frame1") and fam == "PCACD":
                    continue          # PCACD needs at least two features
                setref = tuple(sorted(rng.sample(range(2, len(items) - 2), 2))) if batch and rng.random() < 0.6 else ()
                ts.append(D.detector_pair(fam, p, items, layout, rng.randrange(10 ** 6), setref))
    ctx.validate("Product", ts, "detectors: private copies vs caller overwrites everything it passed (11 layouts)", sabotage=P.sabotage,
                 replay=lambda i: {"mode": "det", "fam": ts[i]["fam"], "params": ts[i]["params"], "items": ts[i]["items"], "layout": ts[i]["layout"], "seed": ts[i]["seed"], "setref_at": ts[i]["setref_at"]},
                 nontrivial=lambda t: any(e["a"]["state"] == "drift" for e in t["ev"]))
    # MD3: frames with a label column, and a third call (give_oracle_label) that accumulates what it is handed over several calls
    tm = [D.md3_pair(rng.randrange(10 ** 6), mode, L, sens) for mode in ("garbage", "reuse") for L in (5, 8, None) for sens in (0.5, 1.0)
          for i in range(1 if q else 6)]
    ctx.validate("Product", tm, "MD3: private copies vs the caller's own (overwritten / reused) frames, labelled samples included", sabotage=P.sabotage,
                 replay=lambda i: {"mode": "md3", "m": tm[i]["mode"], "L": tm[i]["L"], "sens": tm[i]["sens"], "seed": tm[i]["seed"]},
                 nontrivial=lambda t: any("labelled=0" not in e["a"]["tag"] for e in t["ev"]))
    ti = []
    for kind in INJ:
        for frame in (False, True):
            for i in range(3 if q else 20):
                ti.append(D.injector_pair(kind, frame, rng.randrange(10 ** 6)))
    ctx.validate("Product", ti, "injectors: new object of the same type, input and arguments untouched, no shared memory",
                 replay=lambda i: {"mode": "inj", "kind": ti[i]["kind"], "frame": ti[i]["frame"], "seed": ti[i]["seed"]},
                 nontrivial=lambda t: True)
    ctx.assumptions += ["garbage is written into the caller's arrays / DataFrames in place after every call; a retained live view then changes later outputs",
                        "histories are long enough that retained data is used again (past a drift / re-estimation)"]
    return ctx.finish()


def replay(ctx, bundle):
    r = bundle["replay"]
    if r["mode"] == "md3":
        t = D.md3_pair(r["seed"], r["m"], r["L"], r["sens"])
    elif r["mode"] == "det":
        t = D.detector_pair(r["fam"], r["params"], r["items"], r["layout"], r["seed"], tuple(r.get("setref_at", ())))
    else:
        t = D.injector_pair(r["kind"], r["frame"], r["seed"])
    ctx.validate("Product", [t], "replay", replay=lambda i: r)
    return ctx.finish()
