"""C16 - only agreement between label and prediction matters to error-based detectors; unused arguments are unused."""
import numpy as np
import pandas as pd

from .. import drv_error, drv_adwin, drv_lfr
from .. import product as P


def encodings(rng):
    """functions (error bit c, step t) -> (y_true, y_pred) with agreement iff c == 0"""
    classes = ["a", "b", "c", "d"]

    def pick(pool, c):
        yt = rng.choice(pool)
        return yt, (yt if c == 0 else rng.choice([v for v in pool if v != yt]))

    bufs = {"a": np.zeros(1, dtype=np.int64), "b": np.zeros(1, dtype=np.int64), "l1": [0], "l2": [0]}

    def reuse_arrays(c, t):        # ONE preallocated array per side, overwritten in place before every call
        a, b = pick([4, 9, 11], c)
        bufs["a"][0], bufs["b"][0] = a, b
        return bufs["a"], bufs["b"]

    def reuse_lists(c, t):
        a, b = pick([4, 9, 11], c)
        bufs["l1"][0], bufs["l2"][0] = a, b
        return bufs["l1"], bufs["l2"]

    return {
        "reused arrays": reuse_arrays, "reused lists": reuse_lists,
        # a number and the text that spells it are different labels (a prediction read back from a file next to a numeric label)
        "number vs its spelling": lambda c, t: (lambda v: (v, v) if c == 0 else (v, str(v)))(rng.choice([1, 2, 3, 0.5, True])),
        "bytes vs text": lambda c, t: (lambda v: (v, v) if c == 0 else (v, v.encode()))(rng.choice(["a", "b", "xyz"])),
        "ints 7/3": lambda c, t: (7, 7) if c == 0 else (7, 3),
        "strings": lambda c, t: pick(classes, c),
        "bools": lambda c, t: pick([True, False], c),
        "floats": lambda c, t: pick([0.5, 1.5, -2.25], c),
        "three classes": lambda c, t: pick([0, 1, 2], c),
        "0-d arrays": lambda c, t: tuple(np.array(v) for v in pick([4, 9], c)),
        "1-d arrays": lambda c, t: tuple(np.array([v]) for v in pick([4, 9, 11], c)),
        "lists": lambda c, t: tuple([v] for v in pick(["x", "y"], c)),
        "negative ints": lambda c, t: pick([-1, -5, 0], c),
        # the label and the prediction arrive in different numeric kinds (an int next to a float, uint8 next to int64, bool next to int)
        "int vs float": lambda c, t: (lambda a, b: (int(a), float(b)))(*pick([1, 2, 3], c)),
        "uint8 vs int64 array": lambda c, t: (lambda a, b: (np.uint8(a), np.array([b], dtype=np.int64)))(*pick([0, 1, 2], c)),
        "bool vs int": lambda c, t: (lambda a, b: (bool(a), int(b)))(*pick([0, 1], c)),
        # one-element categorical Series (a row of a categorical column); the two Series need not share their category lists
        "categorical series": lambda c, t: (lambda a, b: (pd.Series([a], dtype="category"), pd.Series(pd.Categorical([b], categories=["z", "y", "x", "w"]))))(*pick(["w", "x", "y", "z"], c)),
        # one-row slices of a label column (`labels.iloc[[t]]`): the row label is whatever position the slice came from
        "series slices with their own row labels": lambda c, t: (lambda a, b: (pd.Series([a], index=[t + 1]), pd.Series([b], index=[(7 * t) % 5])))(*pick([3, 5, 8], c)),
        "series / index objects": lambda c, t: (lambda a, b: (pd.Series([a]), pd.Index([b])))(*pick([3, 5, 8], c)),
        # distinct labels that a numeric coercion would identify (or, for "nan", separate from itself)
        "zero-padded codes": lambda c, t: pick(["1", "01", "001", "1.0", "1e0"], c),
        "64-bit ids": lambda c, t: pick([2 ** 53, 2 ** 53 + 1, 2 ** 53 + 2, 2 ** 62 + 1, 2 ** 62 + 3], c),
        # distinct float64 labels closer together than single (or half) precision resolves: scores, timestamps, ids stored as floats
        "floats within a float32 ulp": lambda c, t: pick(rng.choice([[1.0, 1.0 + 1e-9, 1.0 + 2e-9], [2.0 ** 24, 2.0 ** 24 + 1, 2.0 ** 24 + 2], [0.1, 0.1 + 1e-12, 0.1 - 1e-12],
                                                                     [1e10, 1e10 + 1, 1e10 + 2], [-3.0, -3.0 - 4e-16 * 3, -3.0 + 1e-8]]), c),
        "float64 arrays within a float32 ulp": lambda c, t: tuple(np.array([v], dtype=np.float64) for v in pick([5.0, 5.0 + 1e-10, 5.0 - 1e-10], c)),
        # one of the two labels arrives in an object-typed container (a cell of a mixed-type row, `df.iloc[i][["y"]].values`), the other one natively
        "object array vs native": lambda c, t: (lambda a, b: (np.array([a], dtype=object), b) if t % 2 else (a, np.array([b], dtype=object)))(*pick([1, 2, 3], c)),
        "object array of a float vs native int": lambda c, t: (lambda a, b: (np.array([float(a)], dtype=object), int(b)))(*pick([0, 1, 5], c)),
        "mixed-row cell vs native": lambda c, t: (lambda a, b: (pd.DataFrame({"id": ["r"], "y": [a]}).iloc[0][["y"]].values, b))(*pick([True, False], c)),
        "words incl. nan / inf": lambda c, t: pick(["nan", "inf", "cat", "NaN"], c),
        "0 / -0 / False as different classes' stand-ins": lambda c, t: pick(["0", "-0", "0.0", "+0"], c),
        # labels whose representation differs in length / type from the first one seen
        "strings of different lengths": lambda c, t: ("1", "1") if t == 0 else pick(["1", "10", "11", "cat", "catalogue"], c),
        "int first, floats later": lambda c, t: (1, 1) if t == 0 else pick([1, 1.25, 1.75, 2.5], c),
        "bool first, ints later": lambda c, t: (True, True) if t == 0 else pick([True, 2, 3, 0], c),
        # the two labels arrive in containers of different dimensionality
        "1x1 array vs scalar": lambda c, t: (lambda a, b: (np.array([[a]]), b))(*pick([4, 9, 11], c)),
        "scalar vs nested list": lambda c, t: (lambda a, b: (a, [[b]]))(*pick(["u", "v", "w"], c)),
        # each label as the one-cell slice of ITS OWN column of a results frame (`row[["y_true"]]`, `row[["y_pred"]]`); a column that is renamed midway
        "1x1 frames with their own column names": lambda c, t: (lambda a, b: (pd.DataFrame({"y_true" if t % 7 else "label": [a]}), pd.DataFrame({"y_pred": [b]})))(*pick([0, 1, 2], c)),
        "1x1 matrices": lambda c, t: (lambda a, b: (np.matrix([[a]]), np.matrix([[b]])))(*pick([0, 1, 2], c)),      # (an ndarray subclass that stays 2-D under ravel)
        "1x1 frame vs 1-d array": lambda c, t: (lambda a, b: (pd.DataFrame({"y": [a]}), np.array([b])))(*pick([0, 1, 2], c)),
    }


def junk(rng, t):
    return rng.choice([None, "junk", 12345, np.array([[1.0, 2.0, 3.0]]), [1, 2], np.zeros((3, 3)), pd.DataFrame({"q": [1.0]})])


def run(ctx):
    q, rng = ctx.quick, ctx.rng
    ctx.model("MC_DDM", "MC_DDM.cfg")      # the functional specifications take the agreement bit as their only input
    nseq = 8 if q else 60
    encs = encodings(rng)
    # (a) every encoding of the same outcome sequence is accepted by the SAME specification behaviour
    for kind in ("DDM", "EDDM", "STEPD"):
        ts = []
        for i in range(nseq):
            p = drv_error.random_params(kind, rng) if i % 2 else rng.choice(drv_error.small_params(kind))
            seq = [0] + drv_error.piecewise(rng, 250, seg=(10, 60))      # (the first sample is a correct prediction in every encoding)
            for name, enc in encs.items():
                t = drv_error.run(kind, p, seq, enc=enc, X=(lambda tt: junk(rng, tt)) if i % 3 == 0 else None)
                t["enc"] = name
                ts.append(t)
        ctx.validate(kind, ts, "%s: %d outcome sequences x %d label encodings (+ junk X)" % (kind, nseq, len(encs)), sabotage=drv_error.sabotage,
                     replay=lambda i, ts=ts: {"mode": "err", "kind": ts[i]["kind"], "params": ts[i]["params"], "seq": ts[i]["seq"], "enc": ts[i]["enc"]})
    ts = []
    for i in range(nseq):
        p = drv_adwin.params(rng, small=True)
        seq = [1.0] + [float(1 - c) for c in drv_error.piecewise(rng, 250, seg=(10, 60))]
        for name, enc in encs.items():
            t = drv_adwin.run(p, [("update", x) for x in seq], accuracy=True, enc=lambda x, tt, enc=enc: enc(int(1 - x), tt))
            t["enc"] = name
            ts.append(t)
    ctx.validate("Adwin", ts, "ADWINAccuracy: indicator streams under %d label encodings" % len(encs), sabotage=drv_adwin.sabotage,
                 replay=lambda i: {"mode": "adwin", "params": ts[i]["params"], "script": ts[i]["script"], "enc": ts[i]["enc"]})
    # (b) LFR depends only on the confusion-matrix cell of each 0/1 pair
    cellenc = {"bool": lambda a, b, t: (bool(a), bool(b)), "np.int64": lambda a, b, t: (np.int64(a), np.int64(b)),
               "1-d arrays": lambda a, b, t: (np.array([a]), np.array([b])), "lists": lambda a, b, t: ([a], [b]),
               # 0/1 labels as stored in narrow / unsigned columns (uint8 masks, int8 flags)
               "uint8 scalars": lambda a, b, t: (np.uint8(a), np.uint8(b)), "uint16 in lists": lambda a, b, t: ([np.uint16(a)], [np.uint16(b)]),
               "uint32 arrays": lambda a, b, t: (np.array([a], dtype=np.uint32), np.array([b], dtype=np.uint32)),
               "int8 flags": lambda a, b, t: (np.int8(a), np.int8(b)),
               "categorical series": lambda a, b, t: (pd.Series([a], dtype="category"), pd.Series(pd.Categorical([b], categories=[1, 0])))}
    tl = []
    for i in range(3 if q else 20):
        p = drv_lfr.params(rng)
        p["num_mc"] = 100
        cells = drv_lfr.regime_cells(rng, 100)
        s = rng.randrange(10 ** 6)
        for name, enc in cellenc.items():
            t = drv_lfr.run(p, cells, s, enc=enc, X=(lambda tt: junk(rng, tt)) if i % 2 == 0 else None)
            t["enc"] = name
            tl.append(t)
    ctx.validate("LFR", tl, "LFR: same cells under %d encodings of the 0/1 labels (+ junk X)" % len(cellenc), sabotage=drv_lfr.sabotage,
                 replay=lambda i: {"mode": "lfr", "params": tl[i]["params"], "cells": tl[i]["cells"], "seed": tl[i]["seed"], "enc": tl[i]["enc"]})
    # (c) documented-unused arguments never influence the outputs: canonical run vs run with junk in them
    tp = []
    for fam in ("ADWIN", "CUSUM", "PageHinkley", "KdqTreeStreaming", "KdqTreeBatch", "HDDDM", "CDBD", "NNDVI", "PCACD"):
        for i in range(2 if q else 12):
            p = P.default_params(fam, rng)
            batch = P.families()[fam]["kind"] == "batch"
            items = P.gen_items(fam, rng, 9 if batch else (120 if fam in ("KdqTreeStreaming", "PCACD") else 200))
            fb = lambda d, x, t, fam=fam: P.feed(fam, d, x, y_true=junk(rng, t), y_pred=junk(rng, t))
            tp.append(P.two_runs(fam, p, p, items, rng.randrange(10 ** 6), "Equal", feed_b=fb))
    ctx.validate("Product", tp, "change / data-drift detectors: junk y_true / y_pred vs none", sabotage=P.sabotage,
                 replay=lambda i: {"mode": "unused", "fam": tp[i]["fam"], "pa": tp[i]["pa"], "items": tp[i]["items"], "seed": tp[i]["seed"]})
    ctx.assumptions += ["re-encodings are injective relabelings drawn per sample; the trace of every encoding must be a behaviour of the functional specification on the agreement bit"]
    return ctx.finish()


def replay(ctx, bundle):
    import random
    r = bundle["replay"]
    rng = random.Random(7)
    if r["mode"] == "err":
        t = drv_error.run(r["kind"], r["params"], r["seq"], enc=encodings(rng)[r["enc"]])
        ctx.validate(r["kind"], [t], "replay", replay=lambda i: r)
    elif r["mode"] == "adwin":
        enc = encodings(rng)[r["enc"]]
        t = drv_adwin.run(r["params"], [tuple(s) for s in r["script"]], accuracy=True, enc=lambda x, tt: enc(int(1 - x), tt))
        ctx.validate("Adwin", [t], "replay", replay=lambda i: r)
    elif r["mode"] == "lfr":
        t = drv_lfr.run(r["params"], [tuple(c) for c in r["cells"]], r["seed"])
        ctx.validate("LFR", [t], "replay", replay=lambda i: r)
    else:
        fam = r["fam"]
        fb = lambda d, x, t: P.feed(fam, d, x, y_true=junk(rng, t), y_pred=junk(rng, t))
        ctx.validate("Product", [P.two_runs(fam, r["pa"], r["pa"], r["items"], r["seed"], "Equal", feed_b=fb)], "replay", replay=lambda i: r)
    return ctx.finish()
