"""C06 - Linear Four Rates tracks the four rates and tests them against simulated bounds."""
import itertools

from .. import drv_lfr as D


def run(ctx):
    q, rng = ctx.quick, ctx.rng
    ctx.model("MC_LFR", "MC_LFR%s.cfg" % ("" if q else "_deep"), require_actions=("Update", "Rst"))
    rep = lambda ts: (lambda i: {"params": ts[i]["params"], "cells": ts[i]["cells"], "seed": ts[i]["seed"], "enc": ts[i].get("enc", 0), "resets": ts[i].get("resets", []), "bads": ts[i].get("bads", [])})
    # every cell sequence of length n on the real class (small num_mc keeps the Monte-Carlo cheap)
    n, ncfg = (4, 2) if q else (6, 6)
    ts = []
    cells = [(0, 0), (0, 1), (1, 0), (1, 1)]
    for j in range(ncfg + 1):
        p = D.params(rng, small=True)
        if j == ncfg:      # the corner: no burn-in, a fast-forgetting statistic and a wide warning zone - warnings from the very first sample (index 0) on
            p.update(eta=0.1, wl=0.5, dl=rng.choice([0.01, 0.05]), burn=0, sub=1, tracked=sorted(D.RATES))
        p["num_mc"] = 100
        seed = rng.randrange(10 ** 6)
        for seq in itertools.product(cells, repeat=n):
            ts.append(D.run(p, list(seq), seed))
    ctx.validate("LFR", ts, "all 4^%d cell sequences x %d configurations" % (n, ncfg + 1), sabotage=D.sabotage, replay=rep(ts),
                 nontrivial=lambda t: len({tuple(e["rstat"]) for e in t["ev"]}) >= 3)
    # regime-changing streams
    n2, ln = (14, 120) if q else (120, 300)
    # the 0/1 labels arrive in the containers callers use (plain ints, bools from a comparison, numpy scalars, 1-element arrays):
    # the cell of the confusion matrix, and nothing else about the labels, decides
    import numpy as np
    encs = [None, lambda a, b, t: (bool(a), bool(b)), lambda a, b, t: (np.bool_(a), np.bool_(b)), lambda a, b, t: (np.int64(a), np.int64(b)),
            lambda a, b, t: (np.array([a]), np.array([b])), lambda a, b, t: (np.array([a]) > 0, np.array([b]) > 0), lambda a, b, t: ([a], [b]),
            lambda a, b, t: (np.uint8(a), np.uint8(b)), lambda a, b, t: (np.array([a], dtype=np.uint16), np.array([b], dtype=np.uint16))]
    t2 = []
    for i in range(n2):
        rs = tuple(sorted(rng.sample(range(3, ln), rng.randint(1, 3)))) if i % 2 == 0 else ()      # user resets at arbitrary stream positions
        p = D.params(rng)
        if i % 5 == 3:
            # parallelize=True with at most ONE tracked rate: a single job, hence no concurrency - the same function of the inputs as the sequential path
            # (several jobs share the bounds cache without synchronisation: spec/LFRParallel, outside this check)
            p.update(par=True, tracked=rng.choice([["tpr"], ["tnr"], ["ppv"], ["npv"], []]))
        t = D.run(p, D.regime_cells(rng, ln), rng.randrange(10 ** 6), enc=encs[i % len(encs)], resets=rs,
                  bads=tuple(sorted(rng.sample(range(0, ln), rng.randint(1, 3)))) if i % 3 == 0 else ())
        t["enc"] = i % len(encs)
        t2.append(t)
    for i in range(1 if q else 4):
        p, cells = D.long_memory(rng)
        t2.append(D.run(p, cells, rng.randrange(10 ** 6)))
    ctx.validate("LFR", t2, "regime-changing (y_true, y_pred) streams", sabotage=D.sabotage, replay=rep(t2),
                 nontrivial=lambda t: any(e["state"] == "drift" for e in t["ev"]))
    ctx.assumptions += ["Monte-Carlo bounds are bound to the private _bounds dictionary when readable (otherwise no decision is forced); on a key's "
                        "first use they must lie inside an independent 20000-draw bracket (exact Beta bounds for the implementation's order statistics)",
                        "parallelize=True is exercised with at most one tracked rate (one job, no concurrency); the threaded path with several jobs is out of scope (spec/LFRParallel shows its hazards)"]
    return ctx.finish()


def replay(ctx, bundle):
    r = bundle["replay"]
    import numpy as np
    encs = [None, lambda a, b, t: (bool(a), bool(b)), lambda a, b, t: (np.bool_(a), np.bool_(b)), lambda a, b, t: (np.int64(a), np.int64(b)),
            lambda a, b, t: (np.array([a]), np.array([b])), lambda a, b, t: (np.array([a]) > 0, np.array([b]) > 0), lambda a, b, t: ([a], [b]),
            lambda a, b, t: (np.uint8(a), np.uint8(b)), lambda a, b, t: (np.array([a], dtype=np.uint16), np.array([b], dtype=np.uint16))]
    t = D.run(r["params"], [tuple(c) for c in r["cells"]], r["seed"], enc=encs[r.get("enc", 0)], resets=tuple(r.get("resets", ())), bads=tuple(r.get("bads", ())))
    ctx.validate("LFR", [t], "replay", replay=lambda i: r)
    return ctx.finish()
