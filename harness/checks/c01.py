"""C01 - drift state, counters and warm-up follow the detector lifecycle contract (all 15 detectors)."""
import numpy as np
import pandas as pd

from .. import lifecycle as L
from .. import drv_error, drv_adwin, drv_change, drv_lfr, drv_kdq, drv_hdm, drv_nn, drv_pca, drv_md3


def burst_errors(rng, n, nthr):
    """error sequence with level shifts every few warm-up lengths: several drifts back to back"""
    out, p = [], 0.05
    while len(out) < n:
        p = rng.choice([0.02, 0.1, 0.5, 0.9])
        out += [1 if rng.random() < p else 0 for _ in range(rng.randint(max(3, nthr), 4 * max(3, nthr)))]
    return out[:n]


def collect(ctx):
    rng, q = ctx.rng, ctx.quick
    k = 1 if q else 6
    ts = []
    for _ in range(12 * k):
        for kind in ("DDM", "EDDM", "STEPD"):
            p = drv_error.random_params(kind, rng)
            if rng.random() < 0.5:
                p = rng.choice(drv_error.small_params(kind))
            nthr = p.get("n_threshold", p.get("window_size", 5))
            # half of the histories with the caller's own reset() every few dozen samples - some of them fall into warning zones, some right after a drift
            rs = tuple(range(rng.randint(11, 40), 400, rng.choice([29, 37, 53]))) if rng.random() < 0.5 else ()
            ts.append(L.from_error(kind, drv_error.run(kind, p, burst_errors(rng, 400, nthr), resets=rs)))
    for w in (3, 5, 10) * k:
        # STEPD on an almost perfect classifier: an isolated error opens a warning zone that ends (the error leaves the recent window) without ever
        # passing through "decreased but not significant"; much later accuracy breaks down - the recommendation of THAT zone starts and ends there
        seq = []
        for _ in range(3):
            seq += [0] * (rng.randint(18, 24) * w) + [1] + [0] * (rng.randint(20, 26) * w) + [1] * (3 * w) + [0] * (2 * w)
        ts.append(L.from_error("STEPD", drv_error.run("STEPD", {"window_size": w, "alpha_warning": rng.choice([0.2, 0.3]), "alpha_drift": rng.choice([0.001, 0.0005])}, seq)))
    for i in range(30 * k):
        p = drv_adwin.params(rng, small=rng.random() < 0.5)
        if i % 3 == 2:      # a large minimum window with frequent checks: after a cut the window is below the minimum for a long stretch
            p = drv_adwin.params(rng)
            p.update(window_size_thresh=rng.choice([40, 80]), new_sample_thresh=rng.choice([1, 3]), delta=rng.choice([0.1, 0.5]))
        xs = drv_change.shifty_stream(rng, 300, seg=(8, 40))
        script = [("update", x) for x in xs]
        script.insert(rng.randrange(len(script)), ("reset",))
        script.insert(rng.randrange(1, len(script)), ("bad", np.array([[1.0, 2.0]])))
        ts.append(L.from_adwin(drv_adwin.run(p, script)))
        acc = [1.0 if rng.random() < (0.9 if (j // 40) % 2 == 0 else 0.3) else 0.0 for j in range(300)]
        p2 = drv_adwin.params(rng, small=True)
        ts.append(L.from_adwin(drv_adwin.run(p2, [("update", x) for x in acc], accuracy=True)))
    for i in range(10 * k):
        from ..checks import c04
        xs = drv_change.shifty_stream(rng, 300, seg=(6, 30))
        script = [("update", x) for x in xs]
        script.insert(rng.randrange(1, len(script)), ("bad", np.zeros((2, 1))))
        # calls that only the detector's OWN one-variable guard refuses: a two-variable row as the very first call, and a two-column DataFrame row
        # after array history - refused calls are not counted, wherever the refusal comes from
        import pandas as pd
        script.insert(rng.randrange(1, len(script)), ("bad", pd.DataFrame({"a": [1.0], "b": [2.0]})))
        if i % 2 == 0:
            script.insert(0, ("bad", np.array([[1.0, 2.0]])))
        ph = list(script)
        ph.insert(rng.randrange(len(ph)), ("reset",))
        ts.append(L.from_change(drv_change.ph_run(c04.ph_params(rng, small=rng.random() < 0.5), ph)))
        ts.append(L.from_change(drv_change.cu_run(c04.cu_params(rng, small=rng.random() < 0.5), script)))
    for i in range(3 * k):
        p = drv_lfr.params(rng)
        p["num_mc"] = 100
        ts.append(L.from_lfr(drv_lfr.run(p, drv_lfr.regime_cells(rng, 100), rng.randrange(10 ** 6))))
        # no burn-in at all (the edge of the legal range): the very first sample after a drift is tested, warnings and drifts follow each other back to
        # back - each recommendation belongs to ITS epoch
        p0 = dict(drv_lfr.params(rng), burn=0, sub=1, eta=rng.choice([0.5, 0.1, 0.9]), wl=rng.choice([0.5, 0.2]), dl=rng.choice([0.1, 0.05, 0.4]), num_mc=100,
                  tracked=sorted(drv_lfr.RATES))
        ts.append(L.from_lfr(drv_lfr.run(p0, drv_lfr.regime_cells(rng, 100), rng.randrange(10 ** 6))))
    for i in range(6 * k):
        p = drv_kdq.stream_params(rng)
        p["bootstrap_samples"] = 20
        n = rng.randint(8, 12) * p["window_size"]
        rs = set(rng.sample(range(5, n), 1))
        if p["window_size"] > 2:
            rs.add(rng.randint(1, p["window_size"] - 1))         # a reset while the first reference window is still being collected
        ts.append(L.from_kdq(drv_kdq.run_stream(p, drv_kdq.bursty_stream(rng, n, 2, p["window_size"]), sorted(rs), rng.randrange(10 ** 6))))
        pb = drv_kdq.batch_params(rng)
        pb["bootstrap_samples"] = 20
        ts.append(L.from_kdq(drv_kdq.run_batch(pb, drv_kdq.batch_sequence(rng, 10, 2), [5], first_is_reference=rng.random() < 0.7, seed=rng.randrange(10 ** 6))))
    for i in range(14 * k):
        p = drv_hdm.params(rng)
        ts.append(L.from_hdm(drv_hdm.run(p, drv_hdm.history(rng, p, 12), rng.randrange(10 ** 6))))
    for i in range(4 * k):
        # batches of a handful of rows: with detect_batch=1 the proxy batch split off a three-row reference is still a batch, and is counted
        p = dict(drv_hdm.params(rng), db=1, sig=rng.choice([0.5, 1.0]), stat="stdev")
        ts.append(L.from_hdm(drv_hdm.run(p, drv_hdm.history(rng, p, 12, sizes=[3, 3, 4, 5]), rng.randrange(10 ** 6))))
    for i in range(6 * k):
        p = {"k_nn": 3, "sampling_times": 30, "alpha": rng.choice([0.05, 0.2])}
        hist = drv_nn.nndvi_history(rng, 8)
        p["k_nn"] = drv_nn.safe_k(hist, p["k_nn"])
        ts.append(L.from_nndvi(drv_nn.run_nndvi(p, hist, rng.randrange(10 ** 6))))
    for i in range(8 * k):
        p = drv_pca.params(rng)
        p["window_size"] = rng.choice([20, 30])
        p["online_scaling"] = i % 2 == 0
        W = p["window_size"]
        xs = drv_pca.stream(rng, 8 * W, 3, W) if i % 4 < 2 else drv_pca.restless_stream(rng, 8 * W, 3, W)
        ts.append(L.from_pca(drv_pca.run(p, xs, (), rng.randrange(10 ** 6))))   # user resets keep PCACD's windows: outside C01's quantifier
    for i in range(8 * k):
        from ..checks import c19
        ts.append(L.from_md3(drv_md3.run(c19.params(rng), drv_md3.random_script(rng, 120), rng.randrange(10 ** 6))))
    return ts


def apalache_extra(ctx):
    """thorough tier only: the lifecycle contract's invariants are inductive (Apalache) - histories of ANY length, all six tables the real
    classes use.  An addition to the TLC runs; skipped (and said so) if the tool is unavailable or too slow."""
    import os
    import shutil
    import subprocess
    from .. import tlc
    out = tlc.scratch("apa")
    os.makedirs(out, exist_ok=True)
    spec = os.path.join(tlc.SPEC, "Apa_Lifecycle.tla")
    res = {}
    for name, args, want_ok in (("Init => IndInv", ["--init=ApaInit", "--next=ApaNext", "--length=0"], True),
                                ("IndInv /\\ Next => IndInv'", ["--init=IndInit", "--next=ApaNext", "--length=1"], True),
                                ("negative control: independently chosen counters in reset() are refuted", ["--init=IndInit", "--next=ApaNextLoose", "--length=1"], False)):
        try:
            r = subprocess.run(["apalache-mc", "check", "--inv=IndInv", "--out-dir=" + out] + args + [spec],
                               capture_output=True, text=True, timeout=600, cwd=out)
            ok = "EXITCODE: OK" in r.stdout
            refuted = "Checker has found an error" in r.stdout or "violation" in r.stdout.lower()
            if want_ok:
                res[name] = "discharged" if ok else "FAILED"
                if not ok and refuted:
                    raise tlc.MachineryError("Apalache refutes the inductive invariant of the lifecycle contract: " + r.stdout[-800:])
            else:
                res[name] = "refuted (as it must be)" if (refuted and not ok) else "NOT REFUTED"
                if ok:
                    raise tlc.MachineryError("Apalache accepts the loosened reset action: the inductive obligation does not bite")
        except (OSError, subprocess.TimeoutExpired) as ex:
            res[name] = "skipped (%s)" % type(ex).__name__
    shutil.rmtree(out, ignore_errors=True)
    ctx.parts["apalache:Apa_Lifecycle (six lifecycle tables, unbounded histories)"] = res


def run(ctx):
    ctx.model("MC_DDM", "MC_DDM.cfg")           # each detector module refines Lifecycle (PROPERTY LCSpec); the full set runs in C02-C11
    ctx.model("MC_KdqDetector", "MC_KdqDetector.cfg")
    ctx.model("MC_HDM", "MC_HDM_db1.cfg")
    ctx.model("MC_PCACD", "MC_PCACD.cfg")
    if not ctx.quick:
        apalache_extra(ctx)
    ts = collect(ctx)
    fams = {}
    for t in ts:
        d = fams.setdefault(t["family"], {"traces": 0, "events": 0, "drifts": 0})
        d["traces"] += 1
        d["events"] += len(t["ev"])
        d["drifts"] += sum(1 for e in t["ev"] if e["state"] == "drift")
    ctx.parts["families"] = fams
    if len(fams) < 15:
        raise __import__("harness.tlc", fromlist=["x"]).MachineryError("only %d detector classes were driven: %s" % (len(fams), sorted(fams)))
    ctx.validate("Lifecycle", ts, "lifecycle traces of all 15 detector classes", sabotage=L.sabotage,
                 replay=lambda i: {"family": ts[i]["family"], "trace": ts[i]},
                 nontrivial=lambda t: sum(1 for e in t["ev"] if e["state"] == "drift") >= 2)
    ctx.assumptions += ["warm-up facts that the counters do not show (errors of the epoch, test batches of the epoch, window length before the cut, "
                        "labels given) are counted by the harness from the inputs it fed and the public state"]
    return ctx.finish()


def replay(ctx, bundle):
    t = bundle["replay"]["trace"]
    ctx.validate("Lifecycle", [t], "replay (recorded trace re-validated; re-run the family's own check to re-execute)", replay=lambda i: bundle["replay"])
    return ctx.finish()
