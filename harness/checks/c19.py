"""C19 - MD3 follows its warn / ask-the-oracle / confirm protocol."""
import itertools

from .. import drv_md3 as D
from ..core import pmap

KINDS = [("update", 1), ("update", 0), ("update2",), ("label", 1, 1), ("label", 0, 0), ("label_badcols", 1, 1), ("label2",)]


def params(rng, small=False):
    n0 = rng.choice([4, 6]) if small else rng.choice([6, 10, 20, 40])
    k = 2 if small else rng.choice([2, 3, 5])
    return {"sensitivity": rng.choice([0.5, 2.0]) if small else rng.choice([0.25, 0.5, 1.0, 2.0]), "k": k,
            "L": rng.choice([2, 3]) if small else rng.choice([None, 5, 8] if k > 3 else [None, 3, 5, 8]), "n0": n0,
            "clf_mode": rng.choice(["fixed", "mean"]), "pmargin": rng.choice([0.2, 0.5]), "pacc": rng.choice([0.6, 0.9])}


def run(ctx):
    q, rng = ctx.quick, ctx.rng
    ctx.model("MC_MD3", "MC_MD3%s.cfg" % ("" if q else "_deep"), require_actions=("Ref", "Upd", "UpdRefused", "Lab", "LabRefused"))
    ctx.model("MC_MD3", "MC_MD3_live.cfg")
    rep = lambda ts: (lambda i: {"params": ts[i]["params"], "script": ts[i]["script"], "seed": ts[i]["seed"]})
    # every interleaving of the seven call kinds up to depth n on the real class
    n, ncfg = (3, 4) if q else (5, 4)
    work = []
    for _ in range(ncfg):
        p = params(rng, small=True)
        seed = rng.randrange(10 ** 6)
        work += [(p, list(script), seed) for script in itertools.product(KINDS, repeat=n)]
    ts = pmap(D.run, work)
    ctx.validate("MD3", ts, "all interleavings of 7 call kinds, depth %d x %d configurations" % (n, ncfg), sabotage=D.sabotage,
                 replay=rep(ts), nontrivial=lambda t: any(e["state"] != "None" for e in t["ev"]) and any(e["raised"] != "None" for e in t["ev"]))
    # long random scripts
    n2, ln = (60, 150) if q else (400, 400)
    t2 = pmap(D.run, [(params(rng), D.random_script(rng, ln), rng.randrange(10 ** 6)) for _ in range(n2)])
    ctx.validate("MD3", t2, "random scripts of update / give_oracle_label calls", sabotage=D.sabotage, replay=rep(t2),
                 nontrivial=lambda t: any(e["state"] == "drift" for e in t["ev"]))
    ctx.assumptions += ["fold assignment from sklearn KFold(random_state=42); per-row margin / correctness bits are computed with the user's own "
                        "functions under each fold's clone (kernel table)", "deterministic clone-able threshold classifiers"]
    return ctx.finish()


def replay(ctx, bundle):
    r = bundle["replay"]
    t = D.run(r["params"], [tuple(s) for s in r["script"]], r["seed"])
    ctx.validate("MD3", [t], "replay", replay=lambda i: r)
    return ctx.finish()
