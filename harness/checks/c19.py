"""C19 - MD3 follows its warn / ask-the-oracle / confirm protocol."""
import itertools

from .. import drv_md3 as D
from ..core import pmap

KINDS = [("update", 1), ("update", 0), ("update2",), ("label", 1, 1), ("label", 0, 0), ("label_badcols", 1, 1), ("label2",), ("setref",)]


def params(rng, small=False):
    n0 = rng.choice([4, 6]) if small else rng.choice([6, 10, 20, 40])
    k = 2 if small else rng.choice([2, 3, 5])
    return {"sensitivity": rng.choice([0.5, 2.0]) if small else rng.choice([0.25, 0.5, 1.0, 2.0]), "k": k,
            "L": rng.choice([2, 3]) if small else rng.choice([None, 5, 8] if k > 3 else [None, 3, 5, 8]), "n0": n0,
            "clf_mode": rng.choice(["fixed", "mean"]), "pmargin": rng.choice([0.2, 0.5]), "pacc": rng.choice([0.6, 0.9])}


def replay_behaviour(beh, seed=0):
    """step the real MD3 along one TLC-generated behaviour; returns None or a description of the first disagreement"""
    import random
    import numpy as np
    import pandas as pd
    from menelaus.concept_drift import MD3
    rng = random.Random(seed)
    first = beh[0]
    clf = D.ThresholdClf("fixed").fit(np.zeros((2, 2)), [0, 1])
    det = MD3(clf=clf, margin_calculation_function=D.margin, sensitivity=float(first["call"]["sens"]), k=2,
              oracle_data_length_required=first["call"]["L"])
    for i, stp in enumerate(beh):
        c, op = stp["call"], stp["call"]["op"]
        raised = False
        try:
            if op == "set_reference":
                det.set_reference(pd.DataFrame([D.sample_row(rng, bool(m), bool(cc)) for m, cc in stp["rows"]]), target_name="y")
            elif op == "update":
                det.update(pd.DataFrame([D.sample_row(rng, bool(c["a"]))]))
            elif op == "update_refused":
                det.update(pd.DataFrame([D.sample_row(rng, True) for _ in range(c["a"])]))
            elif op == "label":
                det.give_oracle_label(pd.DataFrame([D.sample_row(rng, bool(c["a"]), bool(c["b"]))]))
            else:
                rows = [D.sample_row(rng, True, True) for _ in range(c["a"])]
                if not c["b"]:
                    for r in rows:
                        r["z"] = r.pop("x1")
                det.give_oracle_label(pd.DataFrame(rows))
        except ValueError:
            raised = True
        refused = op.endswith("refused")
        if raised != refused:       # a call the specification refuses in this state must raise; an accepted one must not
            return "step %d (%s %r): raised=%s, specification says refused=%s" % (i, op, c, raised, refused)
        got = D.project(det)
        exp = stp["exp"]
        flat = {"state": got["state"], "waiting": got["waiting"], "noracle": got["noracle"], "total": got["total"], "since": got["since"],
                "n": got["ref"]["n"]}
        for k in flat:
            if flat[k] != exp[k]:
                return "step %d (%s %r): %s is %r, specification says %r" % (i, op, c, k, flat[k], exp[k])
        for k, v in (("cur", got["cur"]), ("md", got["ref"]["md"]), ("mdstd", got["ref"]["mdstd"]), ("acc", got["ref"]["acc"]), ("accstd", got["ref"]["accstd"])):
            if abs(float(v) - float(exp[k])) > 1e-9 * max(1.0, abs(float(v))):
                return "step %d (%s %r): %s is %s, specification says %s" % (i, op, c, k, v, exp[k])
    return None


def run(ctx):
    q, rng = ctx.quick, ctx.rng
    ctx.model("MC_MD3", "MC_MD3%s.cfg" % ("" if q else "_deep"), require_actions=("Ref", "ReRef", "Upd", "UpdRefused", "Lab", "LabRefused"))
    ctx.model("MC_MD3", "MC_MD3_live.cfg")
    rep = lambda ts: (lambda i: {"params": ts[i]["params"], "script": ts[i]["script"], "seed": ts[i]["seed"]})
    # every interleaving of the seven call kinds up to depth n on the real class
    n, ncfg = (3, 4) if q else (5, 4)
    work = []
    for _ in range(ncfg):
        p = params(rng, small=True)
        seed = rng.randrange(10 ** 6)
        if q:
            work += [(p, list(script), seed) for script in itertools.product(KINDS, repeat=n)]
        else:       # depth 5 over the seven protocol calls, depth 4 with set_reference among them
            work += [(p, list(script), seed) for script in itertools.product(KINDS[:7], repeat=n)]
            work += [(p, list(script), seed) for script in itertools.product(KINDS, repeat=n - 1) if ("setref",) in script]
    ts = pmap(D.run, work)
    ctx.validate("MD3", ts, "all interleavings of 8 call kinds (set_reference included), depth %d x %d configurations" % (n, ncfg), sabotage=D.sabotage,
                 replay=rep(ts), nontrivial=lambda t: any(e["state"] != "None" for e in t["ev"]) and any(e["raised"] != "None" for e in t["ev"]))
    # conformance B: every behaviour TLC enumerates for the MD3 specification, stepped through the real object
    from .. import tlc
    behs, res = tlc.generate("Gen_MD3", "Gen_MD3%s.cfg" % ("" if q else "_deep"))
    uniq = {}
    for b in behs:
        uniq[repr(b)] = b
    behs = list(uniq.values())
    if len(behs) < 500:
        raise tlc.MachineryError("Gen_MD3 emitted only %d behaviours" % len(behs))
    outs = pmap(replay_behaviour, [(b, i) for i, b in enumerate(behs)])
    bad = [(b, o) for b, o in zip(behs, outs) if o]
    for b, o in bad[:5]:
        ctx.violation("TLC-generated MD3 behaviour not reproduced by the real class: " + o,
                      {"stage": "replay of TLC-enumerated behaviours", "behaviour": b, "why": o, "replay": {"mode": "behaviour", "behaviour": b}})
    ctx.traces += len(behs)
    ctx.events += sum(len(b) for b in behs)
    ctx.nontrivial += sum(1 for b in behs if any(s["exp"]["state"] != "None" for s in b))
    ctx.states += res["distinct"]
    ctx.transitions += res["generated"]
    ctx.parts["behaviours:Gen_MD3"] = {"behaviours_replayed": len(behs), "steps": sum(len(b) for b in behs), "mismatches": len(bad)}
    probe = [dict(s) for s in behs[len(behs) // 2]]
    probe[-1] = dict(probe[-1], exp=dict(probe[-1]["exp"], total=probe[-1]["exp"]["total"] + 1))
    if replay_behaviour(probe) is None:
        raise tlc.MachineryError("the MD3 behaviour replayer does not compare the projection")
    # long random scripts
    n2, ln = (60, 150) if q else (400, 400)
    t2 = pmap(D.run, [(params(rng), D.random_script(rng, ln), rng.randrange(10 ** 6)) for _ in range(n2)])
    ctx.validate("MD3", t2, "random scripts of update / give_oracle_label calls", sabotage=D.sabotage, replay=rep(t2),
                 nontrivial=lambda t: any(e["state"] == "drift" for e in t["ev"]))
    # the library's own defaults: a fitted linear sklearn SVC with the built-in margin inclusion signal (the kernel table is computed by an
    # independent statement of that signal); folds of at least 4 of 6 alternately labelled rows keep both classes in every clone's training set
    t4 = []
    for i in range(16 if q else 120):
        p = {"sensitivity": rng.choice([0.25, 0.5, 1.0, 2.0]), "k": rng.choice([3, 5]), "L": rng.choice([6, 8, 10]), "n0": rng.choice([12, 20, 30]),
             "clf_mode": "svc", "pmargin": 0.5, "pacc": rng.choice([0.8, 0.95])}
        t4.append((p, D.random_script(rng, 60 if q else 200), rng.randrange(10 ** 6)))
    t4 = pmap(D.run, t4)
    ctx.validate("MD3", t4, "default SVC margin signal: random scripts", sabotage=D.sabotage, replay=rep(t4),
                 nontrivial=lambda t: any(e["state"] == "drift" for e in t["ev"]))
    ctx.assumptions += ["fold assignment from sklearn KFold(random_state=42); per-row margin / correctness bits are computed with the user's own "
                        "functions under each fold's clone (kernel table)", "deterministic clone-able threshold classifiers"]
    return ctx.finish()


def replay(ctx, bundle):
    r = bundle["replay"]
    if r.get("mode") == "behaviour":
        o = replay_behaviour(r["behaviour"])
        if o:
            ctx.violation("TLC-generated MD3 behaviour not reproduced by the real class: " + o, bundle)
        ctx.traces, ctx.nontrivial, ctx.states, ctx.transitions = 1, 2, 1, 1
        return ctx.finish()
    t = D.run(r["params"], [tuple(s) for s in r["script"]], r["seed"])
    ctx.validate("MD3", [t], "replay", replay=lambda i: r)
    return ctx.finish()
