"""C20 - drift injectors change only the window and columns they are asked to change."""
from .. import drv_inject as D

KINDS = ["swap", "labelswap", "labeljoin", "shift", "brownian", "resample", "dirichlet", "cover"]


def run(ctx):
    q, rng = ctx.quick, ctx.rng
    ctx.model("MC_Injector", "MC_Injector%s.cfg" % ("" if q else "_deep"), require_actions=("Apply",))
    # every window 0 <= from <= to <= n (empty and full included) x every injector x both containers, small data
    traces, specs = [], []
    n = 5 if q else 7
    for kind in KINDS:
        for frame in (False, True):
            for f in range(n + 1):
                for t in range(f, n + 1):
                    if kind == "cover" and (f, t) != (0, n):
                        continue
                    for rep in range(1 if q else 3):
                        seed = rng.randrange(10 ** 6)
                        st = rng.getstate()
                        specs.append((kind, n, 3, frame, (f, t), seed, st))
    bad = 0
    for kind, n_, nc, frame, w, seed, st in specs:
        rng.setstate(st)
        try:
            e = D.call(rng, kind, n_, nc, frame, w, seed)
            traces.append({"cfg": {}, "ev": [e], "spec": [kind, n_, nc, frame, list(w), seed]})
        except Exception as ex:  # noqa
            bad += 1
            if bad <= 5:
                ctx.violation("%s on %s window [%d,%d) of %d rows raised %s: %s" % (kind, "DataFrame" if frame else "ndarray", w[0], w[1], n_, type(ex).__name__, ex),
                              {"stage": "all windows", "replay": {"mode": "call", "spec": [kind, n_, nc, frame, list(w), seed]}, "error": repr(ex)})
    ctx.parts["calls that raised"] = bad
    rep = lambda ts: (lambda i: {"mode": "call", "spec": ts[i]["spec"]})
    ctx.validate("Injector", traces, "every window of %d rows x 8 injectors x ndarray/DataFrame" % n, sabotage=D.sabotage, replay=rep(traces),
                 nontrivial=lambda t: t["ev"][0]["from"] < t["ev"][0]["to"] and t["ev"][0]["out"] != t["ev"][0]["in"])
    # random larger calls
    t2 = []
    for i in range(160 if q else 1600):
        kind = KINDS[i % len(KINDS)]
        n_, nc, frame, seed = rng.randint(8, 60), rng.randint(2, 5), rng.random() < 0.5, rng.randrange(10 ** 6)
        st = rng.getstate()
        try:
            f, t = sorted((rng.randint(0, n_), rng.randint(0, n_)))
            if t == f:
                t = min(n_, f + 1)
                f = t - 1
            rng.setstate(st)
            e = D.call(rng, kind, n_, nc, frame, (f, t) if kind != "cover" else None, seed)
            t2.append({"cfg": {}, "ev": [e], "spec": [kind, n_, nc, frame, [f, t] if kind != "cover" else None, seed]})
        except Exception as ex:  # noqa
            ctx.violation("%s raised %s on random data: %s" % (kind, type(ex).__name__, ex), {"stage": "random", "error": repr(ex), "replay": None})
    # frames in which several of the OTHER columns share one label (glued together with pd.concat(axis=1)): every column comes back, under its label
    for i in range(24 if q else 160):
        kind = KINDS[i % len(KINDS)]
        n_, nc, seed = rng.randint(8, 40), rng.randint(4, 6), rng.randrange(10 ** 6)
        f, t = sorted((rng.randint(0, n_ - 1), rng.randint(1, n_)))
        st = rng.getstate()
        try:
            e = D.call(rng, kind, n_, nc, True, (f, max(t, f + 1)) if kind != "cover" else None, seed, style="dup")
            t2.append({"cfg": {}, "ev": [e], "spec": [kind, n_, nc, True, [f, max(t, f + 1)] if kind != "cover" else None, seed, "dup"]})
        except Exception as ex:  # noqa
            ctx.violation("%s raised %s on a frame with repeated column labels: %s" % (kind, type(ex).__name__, ex), {"stage": "dup labels", "error": repr(ex), "replay": None})
    # mixed-type frames (an integer-typed feature column, float columns, a text column): the injection aims at the INTEGER column - what comes back holds
    # the injected values, not what fits the column's former type
    for i in range(12 if q else 80):
        kind = ("shift", "brownian", "swap")[i % 3]
        n_, nc, seed = rng.randint(8, 40), rng.randint(3, 5), rng.randrange(10 ** 6)
        f, t = sorted((rng.randint(0, n_ - 2), rng.randint(2, n_)))
        try:
            e = D.call(rng, kind, n_, nc, True, (f, max(t, f + 2)), seed, style="mixed", target=1)
            t2.append({"cfg": {}, "ev": [e], "spec": [kind, n_, nc, True, [f, max(t, f + 2)], seed, "mixed"]})
        except Exception as ex:  # noqa
            ctx.violation("%s raised %s on a mixed-type frame: %s" % (kind, type(ex).__name__, ex), {"stage": "mixed frames", "error": repr(ex), "replay": None})
    ctx.validate("Injector", t2, "random larger data sets", sabotage=D.sabotage, replay=rep(t2),
                 nontrivial=lambda t: t["ev"][0]["out"] != t["ev"][0]["in"])
    # one injector OBJECT serving several calls with alternating containers and shapes (state must not leak between calls)
    ts = []
    for kind in KINDS:
        for i in range(3 if q else 20):
            seed = rng.randrange(10 ** 6)
            import random as _r
            try:
                ts.append(D.session(_r.Random(seed), kind, 5, seed))
            except Exception as ex:  # noqa
                ctx.violation("%s: a reused injector object raised %s: %s" % (kind, type(ex).__name__, ex),
                              {"stage": "sessions", "error": repr(ex), "replay": {"mode": "session", "kind": kind, "seed": seed}})
    ctx.validate("Injector", ts, "sessions: one injector object, alternating ndarray / DataFrame calls", sabotage=D.sabotage,
                 replay=lambda i: {"mode": "session", "kind": ts[i]["kind"], "seed": ts[i]["seed"]}, nontrivial=lambda t: True)
    # class frequencies of the resampling injector, aggregated over many calls
    t3 = [D.freq_trace(rng, frame, 60 if q else 400, rng.randrange(10 ** 6), dirichlet=dz) for frame in (False, True) for dz in (False, True) for _ in range(2 if q else 6)]
    ctx.validate("Injector", t3, "aggregate class frequencies of LabelProbabilityInjector / LabelDirichletInjector (concentrated alpha)",
                 replay=lambda i: {"mode": "freq", "frame": t3[i]["frame"], "reps": t3[i]["reps"], "seed": t3[i]["seed"], "dirichlet": t3[i]["dirichlet"]},
                 nontrivial=lambda t: True)
    ctx.assumptions += ["numeric data sets; class frequencies are judged with a 6-sigma binomial bound over the aggregate of many calls"]
    return ctx.finish()


def replay(ctx, bundle):
    import random
    r = bundle["replay"]
    rng = random.Random(1)
    if r["mode"] == "session":
        ctx.validate("Injector", [D.session(random.Random(r["seed"]), r["kind"], 5, r["seed"])], "replay", replay=lambda i: r)
    elif r["mode"] == "call":
        kind, n_, nc, frame, w, seed = r["spec"][:6]
        e = D.call(rng, kind, n_, nc, frame, tuple(w) if w else None, seed, style=(r["spec"][6] if len(r["spec"]) > 6 else None))
        ctx.validate("Injector", [{"cfg": {}, "ev": [e]}], "replay", replay=lambda i: r)
    else:
        ctx.validate("Injector", [D.freq_trace(rng, r["frame"], r["reps"], r["seed"], r.get("dirichlet", False))], "replay", replay=lambda i: r)
    return ctx.finish()
