"""C09 - kdq-tree detectors alarm exactly when leaf divergence exceeds a bootstrap bound."""
from .. import drv_kdq as D


def rep_stream(ts):
    return lambda i: {"mode": "stream", "params": ts[i]["params"], "xs": ts[i]["xs"], "resets": ts[i]["resets"], "seed": ts[i]["seed"]}


def rep_batch(ts):
    return lambda i: {"mode": "batch", "params": ts[i]["params"], "batches": ts[i]["batches"], "setrefs": ts[i]["setrefs"],
                      "first_is_reference": ts[i]["first_is_reference"], "seed": ts[i]["seed"]}


def run(ctx):
    q, rng = ctx.quick, ctx.rng
    ctx.model("MC_KdqDetector", "MC_KdqDetector%s.cfg" % ("" if q else "_deep"), require_actions=("SUpdate", "SReset", "BSetRef", "BUpdate"))
    ns, nb = (40, 40) if q else (300, 300)
    ts = []
    for i in range(ns):
        p = D.stream_params(rng)
        n = rng.randint(8, 14) * p["window_size"]
        xs = D.bursty_stream(rng, n, rng.randint(1, 3), p["window_size"])
        resets = sorted(rng.sample(range(5, n), rng.randint(0, 1)))
        ts.append(D.run_stream(p, xs, resets, seed=rng.randrange(10 ** 6)))
    ctx.validate("KdqDetector", ts, "KdqTreeStreaming bursty integer streams", sabotage=D.det_sabotage, replay=rep_stream(ts),
                 nontrivial=lambda t: any(e["state"] == "drift" for e in t["ev"]))
    tb = []
    for i in range(nb):
        p = D.batch_params(rng)
        n = rng.randint(6, 12)
        bs = D.batch_sequence(rng, n, rng.randint(1, 3))
        setrefs = sorted(rng.sample(range(2, n), rng.randint(0, 1)))
        tb.append(D.run_batch(p, bs, setrefs, first_is_reference=rng.random() < 0.8, seed=rng.randrange(10 ** 6)))
    ctx.validate("KdqDetector", tb, "KdqTreeBatch batch sequences", sabotage=D.det_sabotage, replay=rep_batch(tb),
                 nontrivial=lambda t: any(e["state"] == "drift" for e in t["ev"]))
    ctx.assumptions += ["the bootstrap critical value is bound to the private _critical_dist when readable and must lie in an independently "
                        "bootstrapped 6-sigma bracket of the documented quantile; otherwise only decisions outside the bracket are forced",
                        "data are integer-valued"]
    return ctx.finish()


def replay(ctx, bundle):
    r = bundle["replay"]
    if r["mode"] == "stream":
        t = D.run_stream(r["params"], r["xs"], r["resets"], r["seed"])
    else:
        t = D.run_batch(r["params"], r["batches"], r["setrefs"], r["first_is_reference"], r["seed"])
    ctx.validate("KdqDetector", [t], "replay", replay=lambda i: r)
    return ctx.finish()
