"""C09 - kdq-tree detectors alarm exactly when leaf divergence exceeds a bootstrap bound."""
from .. import drv_kdq as D
from .. import containers as C


def rep_stream(ts):
    return lambda i: {"mode": "stream", "params": ts[i]["params"], "xs": ts[i]["xs"], "resets": ts[i]["resets"], "seed": ts[i]["seed"]}


def rep_batch(ts):
    return lambda i: {"mode": "batch", "params": ts[i]["params"], "batches": ts[i]["batches"], "setrefs": ts[i]["setrefs"],
                      "first_is_reference": ts[i]["first_is_reference"], "seed": ts[i]["seed"], "resets": ts[i].get("resets", [])}


def run(ctx):
    q, rng = ctx.quick, ctx.rng
    ctx.model("MC_KdqDetector", "MC_KdqDetector%s.cfg" % ("" if q else "_deep"), require_actions=("SUpdate", "SReset", "BSetRef", "BUpdate", "BReset"))
    ns, nb = (40, 40) if q else (300, 300)
    ts = []
    for i in range(ns):
        p = D.stream_params(rng)
        p["feed"] = ("array", "halves", "frame", "mix")[i % 4]   # float rows / Python lists mixing ints and floats / one-row DataFrames / a draw per call
        if p["feed"] == "halves":
            p["lbnum"] = 0       # the minimum cell size is int(lbound * range): only with lbound = 0 is the tree exactly scale-equivariant
        if p["feed"] == "mix":
            C.choose(rng, p, C.ROW_KINDS)
        n = rng.randint(8, 14) * p["window_size"]
        xs = D.bursty_stream(rng, n, rng.randint(1, 3), p["window_size"])
        if i % 8 == 7:         # a window no larger than count_ubound: the reference tree is a single leaf, divergence and critical value are both 0
            p["count_ubound"] = 25
        if i % 8 in (2, 6):    # the stream opens with a few all-zero samples (an idle sensor): they are samples like any other
            dd = len(xs[0])
            xs = [[0] * dd for _ in range(rng.randint(1, 4))] + xs
        if i % 8 == 5:         # byte-valued data handed over in narrow unsigned dtypes
            xs = D.byte_stream(rng, n, rng.randint(1, 3), p["window_size"])
            p["feed"] = {"seed": rng.randrange(10 ** 6), "kinds": [rng.choice(["uint8array", "uint16array"])]}
        resets = sorted(rng.sample(range(5, n), rng.randint(0, 1)))
        p["neighbour"] = i % 3 == 1        # a second detector of the same class alive next to this one, on its own stream
        ts.append(D.run_stream(p, xs, resets, seed=rng.randrange(10 ** 6)))
    ctx.validate("KdqDetector", ts, "KdqTreeStreaming bursty integer streams", sabotage=D.det_sabotage, replay=rep_stream(ts),
                 nontrivial=lambda t: any(e["state"] == "drift" for e in t["ev"]))
    tb = []
    for i in range(nb):
        p = D.batch_params(rng)
        if i % 3 != 0:
            C.choose(rng, p, C.BATCH_KINDS + C.LOOSE_BATCH_KINDS)
        n = rng.randint(6, 12)
        bs = D.batch_sequence(rng, n, rng.randint(1, 3))
        if i % 8 == 5:
            dd = rng.randint(1, 3)
            flat = D.byte_stream(rng, 40 * n, dd, 20)
            bs = [flat[40 * j: 40 * j + rng.randint(25, 40)] for j in range(n)]
            p["feed"] = {"seed": rng.randrange(10 ** 6), "kinds": [rng.choice(["uint8array", "uint16array"])]}
        setrefs = sorted(rng.sample(range(2, n), rng.randint(0, 1)))
        resets = sorted(rng.sample(range(2, n), rng.randint(1, 2))) if i % 3 == 1 else []          # the caller's own reset(), also right after a drift
        p["neighbour"] = i % 3 == 2
        tb.append(D.run_batch(p, bs, setrefs, first_is_reference=rng.random() < 0.8, seed=rng.randrange(10 ** 6), resets=resets))
    # heavy-tailed data with the default-like count_ubound: the reference tree then has sparsely filled outer leaves,
    # which is where a bootstrap that mis-bins its samples shows (critical value far outside the bracket)
    import numpy as _np
    for i in range(4 if q else 24):
        p = {"alpha": rng.choice([0.05, 0.1, 0.2]), "bootstrap_samples": 200, "count_ubound": rng.choice([50, 100]), "lbnum": 0, "lbden": 4}   # (cutpoint bound 0: like the default 2e-10)
        nr = _np.random.RandomState(rng.randrange(2 ** 31))
        d = rng.choice([1, 2])
        scale = 1.0
        bs = []
        for b in range(5):
            if b in (2, 4):
                scale = rng.choice([0.5, 1.6, 2.5])
            rows = [[int(v) for v in row] for row in _np.round(nr.lognormal(0, 1, size=(rng.randint(400, 900), d)) * 200 * scale)]
            rows[rng.randrange(len(rows))] = [int(200 * scale * rng.choice([150, 400]))] * d          # one far outlier: an end leaf with a single point
            bs.append(rows)
        tb.append(D.run_batch(p, bs, (), True, seed=rng.randrange(10 ** 6)))
    ctx.validate("KdqDetector", tb, "KdqTreeBatch batch sequences (incl. heavy-tailed data)", sabotage=D.det_sabotage, replay=rep_batch(tb),
                 nontrivial=lambda t: any(e["state"] == "drift" for e in t["ev"]))
    ctx.assumptions += ["the bootstrap critical value is bound to the private _critical_dist when readable and must lie in an independently "
                        "bootstrapped 6-sigma bracket of the documented quantile; otherwise only decisions outside the bracket are forced",
                        "data are integer-valued"]
    return ctx.finish()


def replay(ctx, bundle):
    r = bundle["replay"]
    if r["mode"] == "stream":
        t = D.run_stream(r["params"], r["xs"], r["resets"], r["seed"])
    else:
        t = D.run_batch(r["params"], r["batches"], r["setrefs"], r["first_is_reference"], r["seed"], tuple(r.get("resets", ())))
    ctx.validate("KdqDetector", [t], "replay", replay=lambda i: r)
    return ctx.finish()
