"""C03 - ADWIN keeps exact statistics of its adaptive window and cuts it by its rule."""
import itertools

import numpy as np
import pandas as pd

from .. import drv_adwin as D
from ..core import pmap
from ..drv_change import shifty_stream

from ..containers import wrap_of, draw_wrap


def replayer(traces):
    return lambda i: {"kind": traces[i]["kind"], "params": traces[i]["params"], "script": traces[i]["script"],
                      "wrap": traces[i].get("wrap", "scalar")}


def run(ctx):
    q, rng = ctx.quick, ctx.rng
    ctx.model("MC_Adwin", "MC_Adwin%s.cfg" % ("" if q else "_deep"), require_actions=("UpdateKeep", "UpdateCut"))
    # every 0/10 sequence of length n on the real class, configurations from the model's corner
    n, ncfg = (9, 6) if q else (12, 16)
    ps = [D.params(rng, small=True) for _ in range(ncfg)]
    ps[0]["max_buckets"] = 1
    traces = pmap(D.run, [(p, [("update", x) for x in s]) for p in ps for s in itertools.product((0.0, 10.0), repeat=n)])
    ctx.validate("Adwin", traces, "ADWIN all 2^%d sequences x %d configurations" % (n, ncfg), sabotage=D.sabotage,
                 replay=replayer(traces))
    # long real-valued streams with level and variance shifts
    nt, ln = (48, 500) if q else (400, 1500)
    traces = []
    for i in range(nt):
        p = D.params(rng)
        if i % 6 == 0:
            p["max_buckets"] = 1
        xs = shifty_stream(rng, ln, seg=(20, 120), grid=rng.choice([None, None, 0.25]))
        if i % 8 == 3:
            # integer counters of large magnitude (ids, byte counts, timestamps), handed over as ints by most containers
            # all values lie in [base, base + spread] with spread <= base: the floating-point noise of ADWIN's accumulated variance
            # (~1e-13 * n * magnitude^2) then stays far below both the variance tolerance and every cut decision
            base, spread = rng.choice([(10 ** 9, 10 ** 9), (3 * 10 ** 9, 10 ** 9), (10 ** 7, 10 ** 7), (10 ** 12, 10 ** 11)])
            lo, hi = min(xs), max(xs)
            xs = [float(int(base + spread * (x - lo) / (hi - lo))) for x in xs]
        if i % 8 == 5:
            # plateaus: a setpoint / price / configured level that is repeated exactly until it changes, at values that are not
            # binary fractions.  After a cut only identical values remain in the window and the variance ADWIN maintains by
            # subtraction is a rounding residue of either sign; the rule still has to be applied to the window as it stands
            p.update(conservative_bound=False, delta=rng.choice([0.002, 0.05, 0.5]), new_sample_thresh=rng.choice([1, 3, 32]))
            levels = rng.choice([[1.1, 2.3], [5.3, 7.1], [0.1, 0.7, 1.9], [19.99, 24.49, 17.3], [1e-3, 3.3e-3]])
            xs, k = [], rng.randrange(len(levels))
            while len(xs) < ln:
                xs += [levels[k % len(levels)]] * rng.randint(60, 160)
                k += 1
            xs = xs[:ln]
        script = [("update", x) for x in xs]
        for _ in range(rng.randint(0, 2)):
            script.insert(rng.randrange(len(script)), ("reset",))
        for _ in range(rng.randint(0, 2)):
            script.insert(rng.randrange(1, len(script)), ("bad", rng.choice([np.array([[1.0, 2.0]]), [[1.0], [2.0]]])))
        if i % 3 == 0:      # the very first call is refused by ADWIN's own one-variable guard
            script.insert(0, ("bad", rng.choice([np.array([[1.0, 2.0]]), [3.0, 4.0], pd.DataFrame({"a": [1.0], "b": [2.0]})])))
        w = draw_wrap(rng)             # scalars, lists, arrays, frames, series, views of a reused buffer - one kind or a mix per stream
        t = D.run(p, script, wrap_of(w))
        t["wrap"] = w
        traces.append(t)
    ctx.validate("Adwin", traces, "ADWIN long shifting streams", sabotage=D.sabotage, replay=replayer(traces),
                 nontrivial=lambda t: sum(1 for e in t["ev"] if e["state"] == "drift") >= 2)
    # ADWINAccuracy = ADWIN with the given parameters on the indicator stream
    nt, ln = (32, 400) if q else (200, 1500)
    traces = []
    for i in range(nt):
        p = D.params(rng)
        if i % 2 == 0:
            p.update(new_sample_thresh=rng.choice([1, 2, 5]), delta=rng.choice([0.05, 0.3]), window_size_thresh=rng.choice([3, 6]))
        acc = 0.9
        xs = []
        if i % 4 == 1:
            # a large minimum window with frequent checks and sharp early changes of accuracy: cuts are due while the window is still
            # below window_size_thresh but far above subwindow_size_thresh - each parameter must reach ADWIN as it was given
            p.update(window_size_thresh=rng.choice([30, 60]), new_sample_thresh=rng.choice([1, 2]), subwindow_size_thresh=rng.choice([1, 3]),
                     delta=rng.choice([0.3, 0.5]))
            while len(xs) < ln:
                xs += [1.0] * rng.randint(8, 16) + [0.0] * rng.randint(6, 14)
        while len(xs) < ln:
            acc = rng.uniform(0.1, 0.95)
            xs += [1.0 if rng.random() < acc else 0.0 for _ in range(rng.randint(20, 150))]
        if i % 4 == 3:
            # the two labels in DIFFERENT containers (a list next to a scalar, a 1x1 array next to a nested list, one-row slices of two columns, ...):
            # ADWINAccuracy is ADWIN on the indicator "the two labels are equal", whatever they arrive in
            from .c16 import encodings
            import random as _r
            name = ["1x1 array vs scalar", "scalar vs nested list", "1x1 frame vs 1-d array", "series slices with their own row labels", "lists", "int vs float"][(i // 4) % 6]
            enc = encodings(_r.Random(rng.randrange(10 ** 6)))[name]
            t = D.run(p, [("update", x) for x in xs[:ln]], accuracy=True, enc=lambda x, tt, enc=enc: enc(int(1 - x), tt))
            t["encname"] = name
            traces.append(t)
            continue
        traces.append(D.run(p, [("update", x) for x in xs[:ln]], accuracy=True))
        if i % 4 == 0:
            # the same 0/1 indicator stream given to ADWIN itself, as booleans (`det.update(y_true == y_pred)`), ints or floats
            w = {"seed": rng.randrange(10 ** 6), "kinds": [rng.choice(["bool", "npbool", "boolarray", "scalar", "intarray"])]}
            t = D.run(p, [("update", x) for x in xs[:ln]], wrap_of(w))
            t["wrap"] = w
            traces.append(t)
    ctx.validate("Adwin", traces, "ADWINAccuracy on indicator streams", sabotage=D.sabotage, replay=replayer(traces),
                 nontrivial=lambda t: sum(1 for e in t["ev"] if e["state"] == "drift") >= 1)
    ctx.assumptions += ["mean()/variance() are compared with relative tolerance 1e-7 against the mean / population variance of the window the specification holds",
                        "ADWIN's _window_size is a private attribute, read optionally"]
    return ctx.finish()


def replay(ctx, bundle):
    r = bundle["replay"]
    script = [("bad", eval(s[1], {"array": np.array, "np": np})) if s[0] == "bad" else tuple(s) for s in r["script"]]
    t = D.run(r["params"], script, wrap_of(r.get("wrap", "scalar")), accuracy=r["kind"] == "ADWINAccuracy")
    ctx.validate("Adwin", [t], "replay", replay=lambda i: r)
    return ctx.finish()
