"""C02 - after a drift (or a new reference) a detector starts from a clean slate."""
from .. import product as P

FAMS = ["DDM", "EDDM", "STEPD", "PageHinkley", "CUSUM", "KdqTreeStreaming", "KdqTreeBatch", "HDDDM", "CDBD", "NNDVI"]


def run(ctx):
    q, rng = ctx.quick, ctx.rng
    # model level: each functional module's twin restarted after every drift agrees with the running instance (TwinAgree)
    for m in ("DDM", "EDDM", "STEPD", "PageHinkley", "Cusum"):
        ctx.model("MC_" + m, "MC_%s.cfg" % m, require_actions=("TwinRestart",))
    ctx.model("MC_Product", "MC_Product.cfg")
    ts = []
    per = 6 if q else 40
    for fam in FAMS:
        batch = P.families()[fam]["kind"] == "batch"
        for i in range(per):
            p = P.default_params(fam, rng)
            n = rng.randint(10, 14) if batch else (rng.randint(200, 350) if fam != "KdqTreeStreaming" else rng.randint(120, 200))
            items = P.gen_items(fam, rng, n)
            setref = sorted(rng.sample(range(3, n - 1), 1)) if batch and i % 2 == 0 else ()
            ts.append(P.clean_slate(fam, p, items, rng.randrange(10 ** 6), setref))
    # the caller follows the docstrings and calls reset() itself after every reported drift; KdqTreeBatch also without an initial set_reference
    for fam in ("DDM", "EDDM", "STEPD", "PageHinkley", "KdqTreeStreaming", "KdqTreeBatch", "HDDDM", "CDBD", "NNDVI"):
        batch = P.families()[fam]["kind"] == "batch"
        for i in range(2 if q else 12):
            p = P.default_params(fam, rng)
            n = rng.randint(10, 14) if batch else (rng.randint(200, 350) if fam != "KdqTreeStreaming" else rng.randint(120, 200))
            ts.append(P.clean_slate(fam, p, P.gen_items(fam, rng, n), rng.randrange(10 ** 6), (), user_reset=True, no_initial_ref=(i % 2 == 0)))
    # CUSUM on plateaus (repeated values) with a short burn-in: the re-estimated deviation of the last burn_in observations can be exactly 0
    for i in range(6 if q else 40):
        p = dict(burn_in=rng.choice([2, 3]), threshold=rng.choice([2.0, 4.0]), delta=0.005, direction=rng.choice([None, "positive", "negative"]))
        if i % 2 == 0:
            p.update(target=0.0, sd_hat=1.0)
        items, lvl = [], 0.0
        while len(items) < 120:
            lvl = float(rng.choice([-6, -3, 0, 2, 5, 9]))
            seg = rng.randint(6, 25)
            items += [lvl + (rng.choice([-0.5, 0.5]) if rng.random() < 0.15 else 0.0) for _ in range(seg)]
        ts.append(P.clean_slate("CUSUM", p, items[:120], rng.randrange(10 ** 6)))
    # set_reference in the middle of a quiet epoch (no drift pending): still a clean slate
    for fam in ("KdqTreeBatch", "HDDDM", "CDBD", "NNDVI"):
        for i in range(3 if q else 15):
            p = P.default_params(fam, rng)
            if "alpha" in p:
                p["alpha"] = 0.01
            if "significance" in p:
                p.update(statistic="stdev", significance=3.0)
            d = 1 if fam == "CDBD" else 2
            items = [[[rng.randint(0, 9) for _ in range(d)] for _ in range(20)] for _ in range(9)]
            ts.append(P.clean_slate(fam, p, items, rng.randrange(10 ** 6), (rng.randint(3, 6),)))
    # the caller keeps ONE buffer and refills it in place for every row / batch: what a detector carries into the new epoch (the drifted batch as the
    # new reference, the window under construction) are the values it was given, so the fresh twin - started on a snapshot - still agrees
    for fam in ("KdqTreeStreaming", "KdqTreeBatch", "HDDDM", "CDBD", "NNDVI"):
        batch = P.families()[fam]["kind"] == "batch"
        for i in range(3 if q else 20):
            p = P.default_params(fam, rng)
            n = rng.randint(10, 14) if batch else rng.randint(120, 200)
            items = P.gen_items(fam, rng, n)
            setref = sorted(rng.sample(range(3, n - 1), 1)) if batch and i % 2 == 0 else ()
            ts.append(P.clean_slate(fam, p, items, rng.randrange(10 ** 6), setref, reuse=True))
    fams = {}
    for t in ts:
        d = fams.setdefault(t["fam"], {"histories": 0, "epochs": 0})
        d["histories"] += 1
        d["epochs"] += sum(1 for e in t["ev"] if e["fresh"])
    ctx.parts["families"] = fams
    ctx.validate("Product", ts, "whole-history run vs fresh real twins per epoch (10 families)", sabotage=P.sabotage,
                 replay=lambda i: {"fam": ts[i]["fam"], "params": ts[i]["params"], "items": ts[i]["items"], "seed": ts[i]["seed"], "setref_at": ts[i]["setref_at"],
                                   "user_reset": ts[i]["user_reset"], "no_initial_ref": ts[i]["no_initial_ref"], "reuse": ts[i].get("reuse", False)},
                 nontrivial=lambda t: sum(1 for e in t["ev"] if e["fresh"]) >= 2)
    ctx.assumptions += ["identical numpy seed immediately before step t in both runs", "CUSUM's twin receives the documented carry-over (mean / population "
                        "deviation of the last burn_in observations) as constructor arguments; batch twins receive the drifted batch as reference",
                        "feature_epsilons / feature_info of HDDDM are not compared (undefined on a fresh detector's first batch)"]
    return ctx.finish()


def replay(ctx, bundle):
    r = bundle["replay"]
    t = P.clean_slate(r["fam"], r["params"], r["items"], r["seed"], tuple(r["setref_at"]), r.get("user_reset", False), r.get("no_initial_ref", False), r.get("reuse", False))
    ctx.validate("Product", [t], "replay", replay=lambda i: r)
    return ctx.finish()
