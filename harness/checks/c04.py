"""C04 - CUSUM and Page-Hinkley apply their sequential tests to the current observations."""
import itertools

import numpy as np
import pandas as pd

from .. import drv_change as D
from ..core import pmap

ALPHA = (0.0, 1.0, 4.5, -3.0)
from ..containers import wrap_of, draw_wrap


def ph_params(rng, small=False):
    return {"delta": rng.choice([0.005, 0.01, 0.1]), "threshold": rng.choice([0.5, 2.0]) if small else rng.choice([5, 20, 50, 2.5]),
            "burn_in": rng.choice([0, 1, 3]) if small else rng.choice([0, 1, 10, 30]),
            "direction": rng.choice(["positive", "negative"])}


def cu_params(rng, small=False):
    known = rng.random() < 0.4
    return {"target": rng.choice([0.5, 2.0, 0.0, 0]) if known else None, "sd_hat": rng.choice([1.0, 1.5]) if known else None,
            "burn_in": rng.choice([2, 3]) if small else rng.choice([2, 5, 10, 30]),
            "delta": rng.choice([0.005, 0.05, 0.5]), "threshold": rng.choice([1.0, 3.0]) if small else rng.choice([3, 5, 10, 50]),
            "direction": rng.choice([None, "positive", "negative"])}


def replayer(traces):
    return lambda i: {"driver": traces[i]["kind"], "params": traces[i]["params"], "script": traces[i]["script"],
                      "wrap": traces[i].get("wrap", "scalar")}


def run(ctx):
    q = ctx.quick
    rng = ctx.rng
    ctx.model("MC_PageHinkley", "MC_PageHinkley%s.cfg" % ("" if q else "_deep"), require_actions=("Update", "TwinRestart"))
    ctx.model("MC_Cusum", "MC_Cusum%s.cfg" % ("" if q else "_deep"), require_actions=("Update", "TwinRestart", "Rst"))
    # exhaustive short sequences over the model's alphabet on the real classes
    n = 5 if q else 7
    ncfg = 4 if q else 10
    for kind, mk, runner in (("PageHinkley", ph_params, D.ph_run), ("Cusum", cu_params, D.cu_run)):
        ps = [mk(rng, small=True) for _ in range(ncfg)]
        traces = pmap(runner, [(p, [("update", x) for x in s]) for p in ps for s in itertools.product(ALPHA, repeat=n)])
        ctx.validate(kind, traces, "%s all %d^%d sequences x %d configurations" % (kind, len(ALPHA), n, ncfg),
                     sabotage=D.sabotage, replay=replayer(traces))
    # long streams with many level shifts, every container type, resets and refused calls mixed in
    nt, ln = (48, 600) if q else (400, 2000)
    for kind, mk, runner in (("PageHinkley", ph_params, D.ph_run), ("Cusum", cu_params, D.cu_run)):
        traces = []
        for i in range(nt):
            p = mk(rng)
            g = rng.choice([None, None, 0.5])
            if kind == "Cusum" and i % 5 == 4:
                g = 0.5
            xs = D.shifty_stream(rng, ln, grid=g)
            if kind == "Cusum" and i % 5 == 4:
                # the test is translation-invariant: the same stream riding on a large level (timestamps, counters).  Values on a grid of
                # 0.5 plus a power of two keep every sum exact, so the specification's and the implementation's means are the same number
                off = float(2 ** rng.choice([24, 30]))
                xs = [x + off for x in xs]
                if p["target"] is not None:
                    p["target"] = p["target"] + off
            if kind == "Cusum" and i % 5 == 2:
                # the cumulative-sum test works on standardised observations: the same stream in very small or very large units
                sc = rng.choice([1e-9, 1e-12, 1e7])
                xs = [x * sc for x in xs]
                if p["target"] is not None:
                    p["target"], p["sd_hat"] = p["target"] * sc, p["sd_hat"] * sc
            wname = draw_wrap(rng)       # scalars, lists, arrays, frames, series, views of a reused buffer - one kind or a mix per stream
            if i % 5 == 1:
                # raw sensor counts / pixel values / 16- and 32-bit counters: whole numbers handed over in the narrow integer type they were read in.
                # The tests work on the VALUES; no intermediate may live in the narrow type (sums of a few such values leave its range)
                kinds, lo, hi = rng.choice([(["uint8array", "uint8scalar"], 40, 250), (["uint16array"], 500, 60000), (["int16array", "int16scalar"], -30000, 30000),
                                            (["int32array", "int32scalar"], 10 ** 7, 2 * 10 ** 9)])
                a, b = min(xs), max(xs)
                xs = [float(int(lo + (hi - lo) * (x - a) / (b - a))) for x in xs]
                if kind == "Cusum" and p["target"] is not None:
                    p["target"], p["sd_hat"] = float(int((lo + hi) / 2)), float(max(1, (hi - lo) // 8))
                if kind == "PageHinkley":
                    p["threshold"] = rng.choice([0.05, 0.2, 1.0])          # (Page-Hinkley's threshold is relative to the running mean)
                wname = {"seed": rng.randrange(10 ** 6), "kinds": kinds if rng.random() < 0.5 else [rng.choice(kinds)]}
            script = [("update", x) for x in xs]
            if kind == "PageHinkley":
                for _ in range(rng.randint(0, 3)):
                    script.insert(rng.randrange(len(script)), ("reset",))
            elif i % 2 == 0:
                # reset() by the caller (a housekeeping reset, an ensemble resetting all of its members) once the statistics are known
                for _ in range(rng.randint(1, 3)):
                    script.insert(rng.randrange(p["burn_in"] + 2, len(script)), ("reset",))
                if i % 4 == 0 and p["burn_in"] >= 3:
                    script.insert(rng.randrange(1, p["burn_in"]), ("reset",))        # ... and once inside the very first burn-in
            for _ in range(rng.randint(0, 3)):
                script.insert(rng.randrange(1, len(script)), ("bad", rng.choice([np.array([[1.0, 2.0]]), [[1.0], [2.0]], np.zeros((2, 1))])))
            if i % 3 == 0:      # the very first call is refused (nothing is established yet, so it is the detector's own one-variable guard that refuses)
                script.insert(0, ("bad", rng.choice([np.array([[1.0, 2.0]]), [3.0, 4.0], pd.DataFrame({"a": [1.0], "b": [2.0]})])))
            t = runner(p, script, wrap_of(wname))
            t["wrap"] = wname
            traces.append(t)
        if kind == "Cusum":
            # a burn-in of more than a thousand observations (a day of minute data, say) with level shifts inside it: target and deviation are
            # those of ALL burn_in observations, in the first epoch and again after every alarm
            for i in range(1 if q else 5):
                bi = rng.choice([1100, 1300, 1500])
                p = {"target": None, "sd_hat": None, "burn_in": bi, "delta": 0.05, "threshold": rng.choice([5, 10]), "direction": None}
                if i % 2 == 1:
                    p.update(target=1.0, sd_hat=1.0)
                xs = D.shifty_stream(rng, 2 * bi + 500, seg=(bi // 3, bi // 2), levels=(-2, 4), noise=(0.4, 1.0), grid=0.5)
                t = runner(p, [("update", x) for x in xs], wrap_of("scalar"))
                t["wrap"] = "scalar"
                traces.append(t)
        ctx.validate(kind, traces, "%s long shifting streams" % kind, sabotage=D.sabotage, replay=replayer(traces),
                     nontrivial=lambda t: sum(1 for e in t["ev"] if e["state"] == "drift") >= 3)
    ctx.assumptions += ["reported floats are compared with relative tolerance 1e-7; decisions within 1e-9 relative are ambiguous",
                        "CUSUM's cumulative sums are private attributes read optionally (_upper_bound/_lower_bound)"]
    return ctx.finish()


def replay(ctx, bundle):
    r = bundle["replay"]
    script = []
    for s in r["script"]:
        if s[0] == "bad":
            script.append(("bad", eval(s[1], {"array": np.array, "np": np})))
        else:
            script.append(tuple(s))
    runner = D.ph_run if r["driver"] == "PageHinkley" else D.cu_run
    t = runner(r["params"], script, wrap_of(r.get("wrap", "scalar")))
    ctx.validate("PageHinkley" if r["driver"] == "PageHinkley" else "Cusum", [t], "replay", replay=lambda i: r)
    return ctx.finish()
