"""C05 - DDM, EDDM and STEPD decide from the error sequence exactly as specified."""
import random

from .. import drv_error as D
from ..core import pmap

KINDS = ("DDM", "EDDM", "STEPD")


def replayer(traces):
    return lambda i: {"driver": "error_based", "kind": traces[i]["kind"], "params": traces[i]["params"], "seq": traces[i]["seq"],
                      "resets": traces[i]["resets"], "bads": traces[i]["bads"]}


def run(ctx):
    q = ctx.quick
    # 1. the models: all outcome sequences up to the bound, all small configurations
    for k in KINDS:
        ctx.model("MC_" + k, "MC_%s%s.cfg" % (k, "" if q else "_deep"), require_actions=("Update", "TwinRestart"))
    # 2. conformance, exhaustive inputs: every binary sequence of length n on the real classes
    n = 9 if q else 13
    for k in KINDS:
        params = D.small_params(k)
        if q:
            # one configuration per pair of thresholds (the inverted orders included), the sample-count parameter at random
            groups = {}
            for p in params:
                groups.setdefault(tuple(sorted((a, b) for a, b in p.items() if a not in ("n_threshold", "window_size"))), []).append(p)
            params = [ctx.rng.choice(g) for _, g in sorted(groups.items())]
        traces = pmap(D.run, [(k, p, s) for p in params for s in D.all_sequences(n)])
        ctx.validate(k, traces, "%s all 2^%d sequences x %d configurations" % (k, n, len(params)),
                     sabotage=D.sabotage, replay=replayer(traces))
    # 3. conformance, long piecewise-stationary random sequences, production-like parameters
    nt, ln = (40, 1500) if q else (300, 5000)
    for k in KINDS:
        # (user resets and refused calls - labels with several observations - are mixed into the long streams)
        traces = pmap(D.run, [(k, D.random_params(k, ctx.rng), D.piecewise(ctx.rng, ln), D.default_enc, None,
                               tuple(sorted(ctx.rng.sample(range(1, ln), 3))), tuple(sorted(ctx.rng.sample(range(1, ln), 3)))) for i in range(nt)])
        ctx.validate(k, traces, "%s long random streams" % k, sabotage=D.sabotage, replay=replayer(traces),
                     nontrivial=lambda t: sum(1 for e in t["ev"] if e["state"] == "drift") >= 2)
    ctx.assumptions += ["standard normal quantiles z(1-alpha) for STEPD come from scipy.stats.norm.ppf (trusted table)",
                        "comparisons within 1e-9 relative are treated as ambiguous (either outcome accepted)"]
    return ctx.finish()


def replay(ctx, bundle):
    r = bundle["replay"]
    t = D.run(r["kind"], r["params"], r["seq"], resets=tuple(r.get("resets", ())), bads=tuple(r.get("bads", ())))
    ctx.validate(r["kind"], [t], "replay", replay=lambda i: r)
    return ctx.finish()
