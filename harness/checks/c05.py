"""C05 - DDM, EDDM and STEPD decide from the error sequence exactly as specified."""
import random

from .. import drv_error as D
from ..core import pmap

KINDS = ("DDM", "EDDM", "STEPD")


def replayer(traces):
    return lambda i: {"driver": "error_based", "kind": traces[i]["kind"], "params": traces[i]["params"], "seq": traces[i]["seq"],
                      "resets": traces[i]["resets"], "bads": traces[i]["bads"], "enc": traces[i].get("enc", ""), "fold": traces[i].get("fold", False)}


def run(ctx):
    q = ctx.quick
    # 1. the models: all outcome sequences up to the bound, all small configurations
    for k in KINDS:
        ctx.model("MC_" + k, "MC_%s%s.cfg" % (k, "" if q else "_deep"), require_actions=("Update", "TwinRestart"))
    # 2. conformance, exhaustive inputs: every binary sequence of length n on the real classes
    n = 9 if q else 13
    for k in KINDS:
        params = D.small_params(k)
        if q:
            # one configuration per pair of thresholds (the inverted orders included), the sample-count parameter at random
            groups = {}
            for p in params:
                groups.setdefault(tuple(sorted((a, b) for a, b in p.items() if a not in ("n_threshold", "window_size"))), []).append(p)
            params = [ctx.rng.choice(g) for _, g in sorted(groups.items())]
        traces = pmap(D.run, [(k, p, s) for p in params for s in D.all_sequences(n)])
        ctx.validate(k, traces, "%s all 2^%d sequences x %d configurations" % (k, n, len(params)),
                     sabotage=D.sabotage, replay=replayer(traces))
    # 3. conformance, long piecewise-stationary random sequences, production-like parameters
    nt, ln = (40, 1500) if q else (300, 5000)
    for k in KINDS:
        # (user resets and refused calls - labels with several observations - are mixed into the long streams)
        # a quarter of the streams carry class labels as real callers have them (strings of unequal length, ints next to floats, several classes):
        # the error sequence is whether label and prediction are EQUAL, in every epoch
        from .c16 import encodings
        names = ["strings of different lengths", "int first, floats later", "int vs float", "strings", "three classes", "zero-padded codes"]
        encs = [(names[i % len(names)], encodings(random.Random(ctx.rng.randrange(10 ** 6)))[names[i % len(names)]]) if i % 4 == 1 else ("", D.default_enc)
                for i in range(nt)]
        traces = pmap(D.run, [(k, D.random_params(k, ctx.rng), ([0] if encs[i][0] else []) + D.piecewise(ctx.rng, ln), encs[i][1], None,
                               tuple(sorted(ctx.rng.sample(range(1, ln), 3))), tuple(sorted(ctx.rng.sample(range(1, ln), 3)))) for i in range(nt)])
        for i, t in enumerate(traces):
            t["enc"] = encs[i][0]
        if k == "STEPD":
            # an alarm level of exactly 0 switches that alarm off (no p-value is BELOW 0, not even one that underflows to 0.0 when the statistic passes ~8.3):
            # accuracy collapses after a long good stretch, again and again, and only the other alarm may speak
            for j in range(8 if q else 32):
                w = ctx.rng.choice([10, 20, 30])
                pz = [{"window_size": w, "alpha_drift": 0.0, "alpha_warning": ctx.rng.choice([0.05, 0.0])},
                      {"window_size": w, "alpha_drift": 0.003, "alpha_warning": 0.0},
                      # ... and levels at / below machine epsilon, which such a collapse DOES undercut (the p-value is exactly 0.0 then)
                      {"window_size": w, "alpha_drift": 1e-17, "alpha_warning": 0.05},
                      {"window_size": w, "alpha_drift": 1e-15, "alpha_warning": 1e-17}][j % 4]
                seq = []
                while len(seq) < 900:
                    seq += [0] * ctx.rng.randint(90, 200) + [1] * ctx.rng.randint(w, 2 * w) + [1 if ctx.rng.random() < 0.7 else 0 for _ in range(20)]
                t = D.run(k, pz, seq)
                t["enc"] = ""
                traces.append(t)
            # epochs of a hundred thousand (and more) correct predictions, then the first errors: the overall accuracy is within 1e-5 of one, not one - the
            # two-proportion test applies as it does anywhere else.  The quiet stretch is folded into one event (STEPD.Quiet, checked against Step in MC_STEPD)
            for j in range(2 if q else 6):
                w = ctx.rng.choice([30, 50, 100])
                early = ([0] * ctx.rng.randint(40, 90) + [1]) if j % 2 == 1 else []        # (with an early error the stretch is long enough for TWO errors to stay below 1e-5)
                seq = early + [0] * ((100000 if not early else 230000) + 10000 * j) + [1, 0, 0, 1, 1] + [0] * 40
                t = D.run(k, {"window_size": w, "alpha_warning": 0.05, "alpha_drift": 0.003}, seq, fold=True)
                t["enc"], t["fold"] = "", True
                traces.append(t)
        ctx.validate(k, traces, "%s long random streams" % k, sabotage=D.sabotage, replay=replayer(traces),
                     nontrivial=lambda t: sum(1 for e in t["ev"] if e["state"] == "drift") >= 2)
    ctx.assumptions += ["standard normal quantiles z(1-alpha) for STEPD come from scipy.stats.norm.ppf (trusted table)",
                        "comparisons within 1e-9 relative are treated as ambiguous (either outcome accepted)"]
    return ctx.finish()


def replay(ctx, bundle):
    r = bundle["replay"]
    enc = D.default_enc
    if r.get("enc"):
        from .c16 import encodings
        enc = encodings(random.Random(0))[r["enc"]]
    t = D.run(r["kind"], r["params"], r["seq"], enc=enc, resets=tuple(r.get("resets", ())), bads=tuple(r.get("bads", ())), fold=bool(r.get("fold")))
    ctx.validate(r["kind"], [t], "replay", replay=lambda i: r)
    return ctx.finish()
