"""C17 - a stricter confidence setting never makes a detector alarm earlier."""
from .. import product as P

# family -> (parameter, ordered values from loose to strict)
DETECT = {
    "ADWIN": ("delta", [1.0, 0.5, 0.2, 0.05, 0.002, 0.0]), "CUSUM": ("threshold", [0.0, 2.0, 4.0, 8.0, 20.0]), "PageHinkley": ("threshold", [0.0, 1.0, 3.0, 10.0, 30.0]),
    "DDM": ("drift_scale", [2.0, 2.5, 3.0, 4.0]), "EDDM": ("drift_thresh", [0.95, 0.9, 0.8, 0.6]), "STEPD": ("alpha_drift", [0.1, 0.05, 0.01, 0.001]),
    "LinearFourRates": ("detect_level", [0.1, 0.05, 0.02, 0.005]), "KdqTreeStreaming": ("alpha", [0.3, 0.2, 0.05, 0.01]),
    "KdqTreeBatch": ("alpha", [0.3, 0.2, 0.05, 0.01]), "NNDVI": ("alpha", [0.3, 0.2, 0.05, 0.01]),
    "HDDDM": ("significance", None), "CDBD": ("significance", None),
}
# strict -> loose; the first value of each list is STRICTER than the drift threshold used below (a legal, if unusual, configuration:
# nothing orders the two thresholds): the drift decision must not depend on the warning threshold there either
WARN = {"DDM": ("warning_scale", [4.0, 2.0, 1.5, 1.0, 0.5]), "EDDM": ("warning_thresh", [0.5, 0.9, 0.95, 0.97, 0.99]),
        "STEPD": ("alpha_warning", [0.001, 0.05, 0.1, 0.2, 0.4]), "LinearFourRates": ("warning_level", [0.002, 0.02, 0.05, 0.1, 0.2])}


def base_params(fam, rng):
    p = P.default_params(fam, rng)
    if fam == "DDM":
        p.update(warning_scale=0.5)
    if fam == "EDDM":
        p.update(warning_thresh=0.99)
    if fam == "STEPD":
        p.update(alpha_warning=0.45)
    if fam == "LinearFourRates":
        p.update(warning_level=0.25)
    if fam == "CUSUM" and rng.random() < 0.5:
        p.update(target=rng.choice([0.0, 2.0]), sd_hat=rng.choice([1.0, 2.0]), burn_in=rng.choice([8, 20, 30]))   # known target: sums accumulate during burn-in
    return p


def run(ctx):
    q, rng = ctx.quick, ctx.rng
    ctx.model("MC_Product", "MC_Product.cfg")
    ts = []
    per = 3 if q else 20
    for fam, (par, vals) in DETECT.items():
        batch = P.families()[fam]["kind"] == "batch"
        for i in range(per + (7 if vals is None else 0)):
            p = base_params(fam, rng)
            if vals is None:      # HDDDM / CDBD: t-test significance (smaller = stricter) or number of deviations (larger = stricter)
                if i % 2 == 0:
                    p["statistic"] = "tstat"
                elif i % 4 == 1:
                    p["statistic"] = "stdev"
                if p["statistic"] == "tstat":
                    vs = [0.9, 0.6, 0.3, 0.2, 0.05, 0.01, 0.0]       # (significance levels above one half are legal; level 0 = "never", the critical value is infinite)
                else:
                    vs = [0.05, 0.3, 0.5, 0.8, 1.0, 1.5, 2.0, 3.0, float("inf")]       # (a "number of deviations" below one is a legal, loose setting; infinitely many = "never")
            else:
                vs = vals
            i1, i2 = sorted(rng.sample(range(len(vs)), 2))
            if vals is None and p["statistic"] == "tstat" and i % 2 == 0:
                i1 = 0                               # the looser run uses a level well above one half, the stricter one a level around it or below
                i2 = rng.choice([1, 2, 3])
            if vals is None and p["statistic"] != "tstat" and i % 4 == 1:
                i1, i2 = [(0, 4), (0, 5), (1, 4)][(i // 4) % 3]     # a count of deviations below one (0.05 / 0.3) against a count of one or more (1.0 / 1.5)
            if vals is None and i % 5 == 3:         # HDDDM / CDBD: the strictest setting there is (an infinite critical value) against a finite one
                i1, i2 = rng.randint(0, len(vs) - 3), len(vs) - 1
            if vals is not None and i == 0:         # the strictest legal setting of the family against a looser one, every time
                i2 = len(vs) - 1
            if vals is not None and i == 1:         # ... and the loosest legal setting (a threshold of exactly 0, delta = 1) against a stricter one
                i1, i2 = 0, rng.randint(1, len(vs) - 1)
                i1 = rng.randrange(i2)
            loose, strict = dict(p), dict(p)
            loose[par], strict[par] = vs[i1], vs[i2]
            n = rng.randint(8, 12) if batch else (rng.randint(150, 300) if fam not in ("KdqTreeStreaming", "LinearFourRates") else 100)
            items = P.gen_items(fam, rng, n)
            if vals is None and p["statistic"] != "tstat" and i % 4 == 1:
                # a calm stretch first (several batches from one distribution, detect_batch=3): the two runs hold thresholds side by side before either alarms
                loose["detect_batch"] = strict["detect_batch"] = 3
                d_ = 1 if fam == "CDBD" else 2
                c_, sp_ = [rng.randint(-5, 5) for _ in range(d_)], rng.randint(6, 12)
                items = [[[x + rng.randint(0, sp_) for x in c_] for _ in range(rng.choice([24, 30, 40]))] for _ in range(7)] + items[:4]
            if fam == "PageHinkley" and i % 2 == 0:
                items = [abs(x) + 0.5 for x in items]       # positive data: the relation must hold outright
            ts.append(P.two_runs(fam, strict, loose, items, rng.randrange(10 ** 6), "FirstDriftNotLater", extra={"par": par}))
    # ADWIN with a single bucket row (max_buckets larger than any window: every sample is its own bucket), a check after every sample and slowly
    # ramping data: the looser run trims its window a sample at a time while the stricter one keeps it - whatever is dropped is reported
    for i in range(8 if q else 40):
        import math
        slope, amp, ph = rng.choice([0.004, 0.008, 0.012, 0.02]), rng.choice([0.03, 0.06]), rng.uniform(0, 6.28)
        items = [round(slope * j + amp * math.sin(1.7 * j + ph) * math.cos(0.3 * j * j), 4) for j in range(rng.randint(130, 170))]       # a slow ramp with a bounded wobble
        p = dict(max_buckets=rng.choice([64, 200]), new_sample_thresh=rng.choice([1, 1, 2]))
        if i % 3 == 2:
            p.update(window_size_thresh=rng.choice([4, 10]), subwindow_size_thresh=rng.choice([1, 2, 5]))
        ds = [0.5, 0.2, 0.05, 0.01, 0.002]
        s_ = rng.randrange(10 ** 6)
        for a_ in range(len(ds)):
            for b_ in range(a_ + 1, len(ds)):       # every ordered pair of the five levels on the same history
                ts.append(P.two_runs("ADWIN", dict(p, delta=ds[b_]), dict(p, delta=ds[a_]), items, s_, "FirstDriftNotLater", extra={"par": "delta"}))
    # CUSUM with a known target: the sums accumulate during burn-in, so a shift that begins inside the burn-in window
    # lets the loose threshold be crossed before the first admissible alarm while the strict one is crossed later
    for i in range(40 if q else 200):
        bi = rng.choice([10, 20, 30])
        p = dict(target=0.0, sd_hat=1.0, burn_in=bi, delta=rng.choice([0.005, 0.05]), direction=rng.choice([None, "positive"]))
        lo, hi = sorted(rng.sample([0.0, 2.0, 4.0, 6.0, 10.0, 15.0], 2))
        k = rng.randint(0, bi // 2)
        items = [round(rng.gauss(0, 0.05), 3) for _ in range(k)] + [round(rng.uniform(0.3, 1.5) + rng.gauss(0, 0.05), 3) for _ in range(3 * bi)]
        strict, loose = dict(p, threshold=hi), dict(p, threshold=lo)
        ts.append(P.two_runs("CUSUM", strict, loose, items, rng.randrange(10 ** 6), "FirstDriftNotLater", extra={"par": "threshold"}))
    # CUSUM / Page-Hinkley with a threshold of exactly 0 (the loosest legal setting: any positive sum alarms) against small positive thresholds, on
    # streams that creep away from their level slowly, so that the sums stay small for a long time after the burn-in
    for i in range(24 if q else 120):
        fam = ("CUSUM", "PageHinkley")[i % 2]
        bi = rng.choice([5, 10, 20])
        p = dict(burn_in=bi, delta=rng.choice([0.005, 0.05]), direction=rng.choice([None, "positive", "negative"]) if fam == "CUSUM" else rng.choice(["positive", "negative"]))
        base, step = rng.choice([2.0, 5.0]), rng.choice([-1, 1]) * rng.choice([0.05, 0.1, 0.2])
        items = [round(base + rng.gauss(0, 0.3), 3) for _ in range(bi + rng.randint(0, 5))] + [round(base + step * k + rng.gauss(0, 0.3), 3) for k in range(60)]
        strict, loose = dict(p, threshold=rng.choice([0.5, 1.0, 2.0, 3.0])), dict(p, threshold=0.0)
        ts.append(P.two_runs(fam, strict, loose, items, rng.randrange(10 ** 6), "FirstDriftNotLater", extra={"par": "threshold"}))
    # ... and the same pairing on streams whose running mean is NEGATIVE and which keep falling (the PH difference stays exactly 0): the history
    # of the open finding F27 - threshold x mean is then negative for every positive threshold and 0 for threshold 0
    for i in range(4 if q else 20):
        bi = rng.choice([5, 10])
        p = dict(burn_in=bi, delta=0.1, direction="positive")
        items = [round(-0.05 - 0.02 * k - rng.uniform(0, 0.01), 4) for k in range(bi + 25)]
        ts.append(P.two_runs("PageHinkley", dict(p, threshold=rng.choice([0.5, 1.0, 3.0])), dict(p, threshold=0.0), items, rng.randrange(10 ** 6),
                             "FirstDriftNotLater", extra={"par": "threshold"}))
    # Page-Hinkley on streams whose running mean is negative (threshold * mean is then negative: every threshold must alarm at the same sample),
    # with sharp steps in the monitored direction right after the burn-in
    for i in range(30 if q else 150):
        bi = rng.choice([0, 1, 3, 5, 10])
        p = dict(delta=rng.choice([0.005, 0.05]), burn_in=bi, direction=rng.choice(["positive", "negative"]))
        lo_, hi_ = sorted(rng.sample([0.25, 0.5, 1.0, 2.0, 5.0, 20.0], 2))
        base = -rng.choice([0.5, 1.0, 3.0])
        items = [base] * (bi + rng.randint(0, 2)) + [base + rng.choice([-1, 1]) * rng.choice([1.0, 3.0, 6.0])] + [base + round(rng.gauss(0, 0.3), 2) for _ in range(25)]
        items += [base * 2 + round(rng.gauss(0, 0.5), 2) for _ in range(25)]
        ts.append(P.two_runs("PageHinkley", dict(p, threshold=hi_), dict(p, threshold=lo_), items, rng.randrange(10 ** 6), "FirstDriftNotLater", extra={"par": "threshold"}))
    # NN-DVI with two significance levels close to each other and few re-assignments: both runs draw the same re-assignments under the same
    # seed, so the critical values differ only through the quantile - by little, which is when any dependence of the drawing on alpha shows
    for i in range(8 if q else 60):
        lo_, hi_ = rng.choice([(0.05, 0.04), (0.045, 0.04), (0.06, 0.05), (0.03, 0.025), (0.1, 0.09)])
        p = dict(k_nn=3, sampling_times=rng.choice([10, 20]))
        if i % 2 == 1:      # the pair straddles 1 / sampling_times (where "one re-assignment in the tail" begins): nothing about the critical value may change kind there
            lo_, hi_ = 1.04 / p["sampling_times"], 0.96 / p["sampling_times"]
        items = P.gen_items("NNDVI", rng, rng.randint(8, 12))
        ts.append(P.two_runs("NNDVI", dict(p, alpha=hi_), dict(p, alpha=lo_), items, rng.randrange(10 ** 6), "FirstDriftNotLater", extra={"par": "alpha"}))
    # streaming kdq-tree: the divergence hovers between the two critical values (light contamination of the first test
    # window), dips back when calm data dilutes it, and a real drift follows: excursions that do not persist happen in
    # the looser run only, and whatever the detector does at their end must not delay its alarm behind the stricter run
    def hover(s):
        import random
        r = random.Random(s)
        W, dim = r.choice([12, 20, 30]), r.choice([1, 2])
        row = lambda sh: [r.randint(0, 9) + sh for _ in range(dim)]
        m, frac = r.choice([1, 2]), r.uniform(0.1, 0.5)
        h = [row(0) for _ in range(W)] + [row(m if r.random() < frac else 0) for _ in range(W + r.randint(0, W // 2))]
        h += [row(0) for _ in range(r.randint(W // 4, W))] + [row(r.choice([6, 9])) for _ in range(3 * W)]
        p = dict(window_size=W, persistence=r.choice([0.2, 0.3, 0.5]), bootstrap_samples=40, count_ubound=r.choice([2, 4]))
        al = [0.5, 0.3, 0.15, 0.05, 0.01]
        return [P.two_runs("KdqTreeStreaming", dict(p, alpha=al[j]), dict(p, alpha=al[i]), h, s, "FirstDriftNotLater", extra={"par": "alpha"})
                for i in range(5) for j in range(i + 1, 5)]
    from ..core import pmap
    for grp in pmap(hover, [(rng.randrange(10 ** 6),) for _ in range(40 if q else 200)]):
        ts += grp
    ctx.validate("Product", ts, "strict vs loose detection threshold, same history and seed schedule (12 families)", dev_module="Product",
                 replay=lambda i: {"mode": "detect", "fam": ts[i]["fam"], "pa": ts[i]["pa"], "pb": ts[i]["pb"], "items": ts[i]["items"], "seed": ts[i]["seed"]},
                 nontrivial=lambda t: any(e["b"]["state"] == "drift" for e in t["ev"]))
    tw = []
    for fam, (par, vals) in WARN.items():
        for i in range(per + 7):
            p = P.default_params(fam, rng)
            i1, i2 = sorted(rng.sample(range(len(vals)), 2))
            if i % 3 == 0:
                i1 = 0
            elif i % 3 == 1:
                i2 = len(vals) - 1          # the loosest warning threshold: long warning stretches that must leave the drift decisions alone
            strict, loose = dict(p), dict(p)
            strict[par], loose[par] = vals[i1], vals[i2]
            if fam == "DDM":
                strict["drift_scale"] = loose["drift_scale"] = 3.0
            if fam == "EDDM":
                strict["drift_thresh"] = loose["drift_thresh"] = 0.7
            if fam == "STEPD":
                strict["alpha_drift"] = loose["alpha_drift"] = 0.01
            if fam == "LinearFourRates":
                strict["detect_level"] = loose["detect_level"] = 0.01
            items = P.gen_items(fam, rng, 100 if fam == "LinearFourRates" else rng.randint(150, 300))
            tw.append(P.two_runs(fam, strict, loose, items, rng.randrange(10 ** 6), "WarningsSuperset", extra={"par": par}))
    ctx.validate("Product", tw, "strict vs loose warning threshold (DDM, EDDM, STEPD, LFR)",
                 replay=lambda i: {"mode": "warn", "fam": tw[i]["fam"], "pa": tw[i]["pa"], "pb": tw[i]["pb"], "items": tw[i]["items"], "seed": tw[i]["seed"]},
                 nontrivial=lambda t: any(e["b"]["state"] == "warning" for e in t["ev"]))
    # bite: swapping the roles (loose run as A) must be refused somewhere
    sw = [P.two_runs(t["fam"], t["pb"], t["pa"], t["items"], t["seed"], "FirstDriftNotLater") for t in ts[:40]]
    from .. import tlc
    v, _ = tlc.validate_traces("Trace_Product", [{"cfg": t["cfg"], "ev": t["ev"]} for t in sw])
    ctx.sabotage["planted"] += 1
    if not any(x is not None for x in v):
        raise tlc.MachineryError("role-swapped pairs were all accepted: the relation does not bind")
    ctx.sabotage["rejected"] += 1
    ctx.assumptions += ["both runs are seeded identically immediately before every step, so stochastic thresholds differ only in the quantile level"]
    return ctx.finish()


def replay(ctx, bundle):
    r = bundle["replay"]
    t = P.two_runs(r["fam"], r["pa"], r["pb"], r["items"], r["seed"], "FirstDriftNotLater" if r["mode"] == "detect" else "WarningsSuperset")
    ctx.validate("Product", [t], "replay", replay=lambda i: r, dev_module="Product")
    return ctx.finish()
