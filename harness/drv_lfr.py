"""Driver for LinearFourRates."""
import numpy as np
import scipy.stats

from .core import num, st, recs

RATES = ["tpr", "tnr", "ppv", "npv"]
_BR_CACHE = {}


def make(p):
    from menelaus.concept_drift import LinearFourRates
    return LinearFourRates(time_decay_factor=p["eta"], warning_level=p["wl"], detect_level=p["dl"], burn_in=p["burn"],
                           num_mc=p["num_mc"], subsample=p["sub"], rates_tracked=list(p["tracked"]), round_val=p["rv"],
                           parallelize=bool(p.get("par", False)))


def bracket(est_rate, denom, eta, level, n_impl, upper, seed, B=20000):
    """interval for the implementation's Monte-Carlo percentile (linear interpolation between two order statistics of
    n_impl draws) of R = (1-eta) * sum_i eta^(denom-i) * Bernoulli(est_rate): exact Beta bounds (1e-9) for the levels
    those order statistics reach, evaluated on an independent sample of B draws widened by its own 6 sigma."""
    key = (round(est_rate, 12), denom, eta, level, n_impl, upper)
    if key in _BR_CACHE:
        return _BR_CACHE[key]
    rs = np.random.RandomState(seed % (2 ** 32))
    w = (1 - eta) * eta ** (denom - np.arange(1, denom + 1))
    step = max(1, 2000000 // denom)          # in slabs: a long history must not be held as one B x denom table
    x = np.sort(np.concatenate([(rs.binomial(1, est_rate, size=(min(step, B - k), denom)) * w).sum(axis=1) for k in range(0, B, step)]))
    q = (1 - level) if upper else level
    pos = q * (n_impl - 1)
    k1, k2 = int(np.floor(pos)) + 1, min(n_impl, int(np.ceil(pos)) + 1)
    u_lo = float(scipy.stats.beta.ppf(1e-9, k1, n_impl - k1 + 1))
    u_hi = float(scipy.stats.beta.ppf(1 - 1e-9, k2, n_impl - k2 + 1))
    lo_level = max(0.0, u_lo - 6 * np.sqrt(max(u_lo * (1 - u_lo), 1.0 / B) / B))
    hi_level = min(1.0, u_hi + 6 * np.sqrt(max(u_hi * (1 - u_hi), 1.0 / B) / B))
    # an extreme level cannot be estimated from B draws: fall back to the support of the distribution, [0, 1 - eta^denom]
    lo = 0.0 if lo_level < 25.0 / B else float(np.quantile(x, lo_level))
    hi = float(w.sum()) if hi_level > 1 - 25.0 / B else float(np.quantile(x, hi_level))
    out = (lo - 1e-9, hi + 1e-9)
    _BR_CACHE[key] = out
    return out


def run(p, cells, seed=0, enc=None, X=None, resets=(), bads=()):
    """cells: list of (y_true, y_pred) in {0,1}^2; resets: positions before which the user calls reset(); bads: positions before
    which update is called with two labels at once (must be refused and leave no trace)"""
    det = make(p)
    ev = []
    conf = {"tn": 1, "fn": 1, "fp": 1, "tp": 1}
    seen = set()
    from .core import Neighbour
    # the neighbour: same class, its own stream; in every third run it shares the observed detector's decay factor and num_mc but has very loose
    # levels (what ONE detector reports is a function of what IT was given and of ITS OWN parameters)
    nbp = dict(p, num_mc=20) if ((seed + len(cells)) % 3 or len(cells) > 400) else dict(p, wl=0.5, dl=0.45, burn=0, sub=1, tracked=sorted(RATES))
    nb = Neighbour(make(dict(nbp, par=False)), lambda o, u: o.update(int(u < 0.5), int((u * 7) % 1 < 0.6)), len(cells))
    for t, (yt, yp) in enumerate(cells):
        nb.step()
        if t in resets:
            det.reset()
            conf = {"tn": 1, "fn": 1, "fp": 1, "tp": 1}
            ev.append({"op": "reset", "total": int(det.total_samples), "since": int(det.samples_since_reset), "state": st(det.drift_state),
                       "recs": recs(list(det.retraining_recs)), "nstates": len(det.all_drift_states)})
        if t in bads:
            raised = "None"
            np.random.seed((seed * 7919 + t) % (2 ** 32))
            try:
                det.update([1, 0], [1, 1])
            except Exception as ex:  # noqa
                raised = type(ex).__name__
            if det.drift_state != "drift" and int(det.samples_since_reset) == 0:
                conf = {"tn": 1, "fn": 1, "fp": 1, "tp": 1}
            ev.append({"op": "bad", "raised": raised, "total": int(det.total_samples), "since": int(det.samples_since_reset),
                       "state": st(det.drift_state), "recs": recs(list(det.retraining_recs)), "nstates": len(det.all_drift_states)})
        if det.drift_state == "drift":
            conf = {"tn": 1, "fn": 1, "fp": 1, "tp": 1}
        np.random.seed((seed * 7919 + t) % (2 ** 32))
        a, b_ = enc(yt, yp, t) if enc else (yt, yp)
        if X is None:
            det.update(a, b_)
        else:
            det.update(a, b_, X(t))
        conf[{(0, 0): "tn", (1, 0): "fn", (0, 1): "fp", (1, 1): "tp"}[(yt, yp)]] += 1
        since = int(det.samples_since_reset)
        tested = since > p["burn"] and since % p["sub"] == 0
        b, br = {}, {}
        newkeys = set()
        for r in RATES:
            b[r] = {"na": True, "lbw": "0", "ubw": "0", "lbd": "0", "ubd": "0"}
            br[r] = {k: ["0", "0"] for k in ("lbw", "ubw", "lbd", "ubd")}
            if tested and r in p["tracked"]:
                numr = conf["tp"] if r in ("tpr", "ppv") else conf["tn"]
                den = {"tpr": conf["tp"] + conf["fn"], "tnr": conf["tn"] + conf["fp"], "ppv": conf["fp"] + conf["tp"],
                       "npv": conf["tn"] + conf["fn"]}[r]
                rate = numr / den
                key = (float(np.round(np.float64(rate), p["rv"])), den)      # (numpy's rounding: the cache key of the arithmetic the rates are computed in)
                try:
                    rec = det._bounds[key[0]][key[1]]     # optional private read
                    b[r] = {"na": False, "lbw": num(rec["lb_warn"]), "ubw": num(rec["ub_warn"]), "lbd": num(rec["lb_detect"]),
                            "ubd": num(rec["ub_detect"])}
                except Exception:  # noqa
                    pass
                if key not in seen:
                    newkeys.add(key)          # (marked as seen after the step: several rates of one step may share a key, each with its own raw
                    #                            rate - the implementation simulates for whichever of them it comes to first)
                    for name, level, upper in (("lbw", p["wl"], False), ("ubw", p["wl"], True), ("lbd", p["dl"], False), ("ubd", p["dl"], True)):
                        lo, hi = bracket(rate, den, p["eta"], level, p["num_mc"], upper, seed + t)
                        br[r][name] = [num(lo), num(hi)]
        seen |= newkeys
        e = {"op": "update", "yt": int(yt), "yp": int(yp), "b": b, "br": br, "total": int(det.total_samples), "since": since,
             "state": st(det.drift_state), "recs": recs(list(det.retraining_recs)), "nstates": len(det.all_drift_states),
             "laststate": st(det.all_drift_states[-1]), "rstat": ["NA"] * 4, "conf": [-1, -1, -1, -1]}
        try:
            e["rstat"] = [num(det._r_stat[since][r]) for r in RATES]
            e["conf"] = [int(v) for v in det._confusion.ravel()]
        except Exception:  # noqa
            pass
        ev.append(e)
    cfg = {"eta": num(p["eta"]), "burn": p["burn"], "sub": p["sub"], "rv": p["rv"], "tracked": list(p["tracked"])}
    return {"cfg": cfg, "ev": ev, "params": p, "cells": [list(c) for c in cells], "seed": seed, "resets": list(resets), "bads": list(bads)}


def params(rng, small=False):
    k = rng.randint(0 if small else 1, 4)
    return {"eta": rng.choice([0.6, 0.9, 0.75, 0.1]), "wl": rng.choice([0.05, 0.1, 0.2, 0.02, 0.5]), "dl": rng.choice([0.001, 0.01, 0.05, 0.1, 0.25]),   # (warning_level < detect_level is legal too; a fast-forgetting statistic with a wide warning zone warns from the first sample)
            "burn": rng.choice([0, 2, 5]) if small else rng.choice([5, 10, 20]), "sub": rng.choice([1, 2, 3]),
            "num_mc": rng.choice([200, 400]), "rv": rng.choice([2, 4, 1, 0]), "tracked": sorted(rng.sample(RATES, k))}


def long_memory(rng):
    """a slowly forgetting statistic (time_decay_factor close to 1) on a long stationary stream: the rate's denominator grows past a thousand
    and the simulated bounds still have to be those of a history of THAT length"""
    p = {"eta": rng.choice([0.999, 0.998]), "wl": 0.05, "dl": 0.001, "burn": rng.choice([1150, 1250]), "sub": 100, "num_mc": 200, "rv": 4,
         "tracked": [rng.choice(["tpr", "tnr"])]}
    yt = 1 if p["tracked"] == ["tpr"] else 0
    acc = rng.uniform(0.6, 0.9)
    cells = [(yt, yt if rng.random() < acc else 1 - yt) for _ in range(1500)]
    return p, cells


def regime_cells(rng, n):
    out = []
    while len(out) < n:
        ppos, tpr, tnr = rng.uniform(0.3, 0.7), rng.uniform(0.3, 0.98), rng.uniform(0.3, 0.98)
        for _ in range(rng.randint(15, 50)):
            yt = 1 if rng.random() < ppos else 0
            yp = (1 if rng.random() < tpr else 0) if yt == 1 else (0 if rng.random() < tnr else 1)
            out.append((yt, yp))
    return out[:n]


def sabotage(trace, rng):
    k = rng.choice([i for i, x in enumerate(trace["ev"]) if x["op"] == "update"])
    e = trace["ev"][k]
    w = rng.choice(["state", "since", "recs", "rstat"])
    if w == "state":
        e["state"] = {"None": "warning", "warning": "drift", "drift": "None"}[e["state"]]
    elif w == "since":
        e["since"] += 1
    elif w == "recs":
        e["recs"] = [e["recs"][0] + 1, e["recs"][1]]
    else:
        if e["rstat"][0] == "NA":
            e["since"] += 1
        else:
            e["rstat"][0] = num(float(e["rstat"][0]) + 1e-3)
    return trace, k + 1, w
