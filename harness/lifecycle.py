"""C01: lifecycle views of the traces produced by the per-family drivers (all 15 detector classes)."""
from fractions import Fraction

from . import drv_error, drv_adwin, drv_change, drv_lfr, drv_kdq, drv_hdm, drv_nn, drv_pca, drv_md3

NOFACTS = {"errs": 0, "w": 0, "nb": 0, "labels": 0, "epochn": 0}


def table(kind, a=0, b=0, c=1, restart=1, incs=(1,), hasrecs=False, epochbound=True, refrestart=False):
    return {"kind": kind, "a": int(a), "b": int(b), "c": int(c), "restart": restart, "incs": list(incs), "hasrecs": hasrecs,
            "epochbound": epochbound, "refrestart": refrestart}


def ev(op, e, recs=None, **facts):
    f = dict(NOFACTS)
    f.update(facts)
    return {"op": op, "total": e["total"], "since": e["since"], "state": e["state"], "recs": recs if recs is not None else [-2, -2], "facts": f}


def from_error(kind, t):
    p = t["params"]
    tab = {"DDM": table("nthr", p.get("n_threshold", 0), hasrecs=True), "EDDM": table("errs", p.get("n_threshold", 0), hasrecs=True),
           "STEPD": table("win2", p.get("window_size", 0), hasrecs=True)}[kind]
    out, errs, prev = [], 0, "None"
    for e in t["ev"]:
        if e["op"] == "reset":         # the caller's reset(): a new epoch, wherever it falls (inside a warning zone too)
            errs = 0
            out.append(ev("reset", e, e["recs"]))
            prev = e["state"]
            continue
        if e["op"] != "update":
            out.append(ev("refused", e, e["recs"]))
            continue
        if prev == "drift":
            errs = 0
        errs += e["c"]
        out.append(ev("update", e, e["recs"], errs=errs))
        prev = e["state"]
    return {"cfg": tab, "ev": out, "family": kind}


def from_adwin(t):
    p = t["params"]
    tab = table("adwin", p["new_sample_thresh"], p["window_size_thresh"], hasrecs=True, epochbound=False)
    out, W = [], 0
    for e in t["ev"]:
        if e["op"] == "update" and e["raised"] == "None":
            wbefore = W + 1
            W = (e["recs"][1] - e["recs"][0] + 1) if e["state"] == "drift" else wbefore
            out.append(ev("update", e, e["recs"], w=wbefore))
        elif e["op"] == "reset":
            out.append(ev("reset", e, e["recs"]))
        else:
            out.append(ev("refused", e, e["recs"]))
    return {"cfg": tab, "ev": out, "family": t["kind"]}


def from_change(t):
    tab = table("burn", t["params"]["burn_in"])
    out = []
    for e in t["ev"]:
        if e["op"] == "update" and e["raised"] == "None":
            out.append(ev("update", e))
        elif e["op"] == "reset":
            out.append(ev("reset", e))
        elif e["op"] == "bad":
            out.append(ev("refused", e))
        else:
            break       # CUSUM's counted-then-raised zero-deviation call (named deviation, see Cusum.tla)
    return {"cfg": tab, "ev": out, "family": t["kind"]}


def from_lfr(t):
    p = t["params"]
    return {"cfg": table("lfr", p["burn"], p["sub"], hasrecs=True), "ev": [ev("update", e, e["recs"]) for e in t["ev"]], "family": "LinearFourRates"}


def from_kdq(t):
    p = t["params"]
    if t["cfg"]["kind"] == "stream":
        fr = Fraction(str(p["persistence"]))
        tab = table("kdqs", p["window_size"], fr.numerator, fr.denominator, refrestart=True)
        fam = "KdqTreeStreaming"
    else:
        tab = table("batch1", refrestart=True)
        fam = "KdqTreeBatch"
    # epochn: how many samples the harness has fed since the epoch began (stream start, the update after a reported drift, reset())
    out, epochn, prev = [], 0, "None"
    for e in t["ev"]:
        if e["op"] == "reset":
            epochn = 0
        elif e["op"] == "update":
            epochn = 1 if prev == "drift" else epochn + 1
        out.append(ev(e["op"], e, epochn=epochn))
        prev = e["state"]
    return {"cfg": tab, "ev": out, "family": fam}


def from_hdm(t):
    p = t["params"]
    db = p["db"]
    tab = table("hdm", db, restart=2 if db == 1 else 1, incs=(1, 2) if db == 1 else (1,))
    out, nb, prev = [], 0, "None"
    for e in t["ev"]:
        if e["op"] == "update":
            nb = 1 if prev == "drift" else nb + 1
            out.append(ev("update", e, nb=nb))
        else:
            nb = 0
            out.append(ev(e["op"], e))
        prev = e["state"]
    return {"cfg": tab, "ev": out, "family": p["cls"]}


def from_nndvi(t):
    return {"cfg": table("batch1"), "ev": [ev(e["op"], e) for e in t["ev"]], "family": "NNDVI"}


def from_pca(t):
    return {"cfg": table("pcacd", t["cfg"]["W"], t["cfg"]["step"], restart=0), "ev": [ev(e["op"], e) for e in t["ev"]], "family": "PCACD"}


def from_md3(t):
    out = []
    for e in t["ev"]:
        if e["op"] == "set_reference":
            continue
        if e["raised"] != "None":
            out.append(ev("refused", e))
        elif e["op"] == "update":
            out.append(ev("update", e))
        else:
            # number of labels given in this waiting period, this one included (L when it completed the set)
            labels = e["noracle"] if e["noracle"] > 0 else t["cfg"]["L"]
            out.append(ev("label", e, labels=labels))
    return {"cfg": table("md3", t["cfg"]["L"]), "ev": out, "family": "MD3"}


def sabotage(trace, rng):
    ks = [k for k, e in enumerate(trace["ev"]) if e["op"] == "update"]
    if len(ks) < 6:
        return None
    k = rng.choice(ks[1:-3])          # (not near the end: some single-field changes are only exposed by the event that follows)
    e = trace["ev"][k]
    w = "since" if 2 in trace["cfg"].get("incs", [1]) else rng.choice(["since", "total"])     # (HDM detect_batch=1 legitimately counts one or two per update)
    e[w] += 1
    return trace, None, w
