"""Drivers for the change detectors PageHinkley and CUSUM (ADWIN has its own driver)."""
import numpy as np

from .core import num, st


def _scalar(v):
    return float(np.asarray(v, dtype=float).ravel()[0])


# ------------------------------------------------------------------ Page-Hinkley
def ph_make(p):
    from menelaus.change_detection import PageHinkley
    return PageHinkley(delta=p["delta"], threshold=p["threshold"], burn_in=p["burn_in"], direction=p["direction"])


def ph_cfg(p):
    return {"burn": int(p["burn_in"]), "delta": num(p["delta"]), "thr": num(p["threshold"]), "dir": p["direction"]}


def ph_project(det, op, x=None, raised="None"):
    df = det.to_dataframe()
    e = {"op": op, "x": num(x) if x is not None else "NA", "raised": raised,
         "total": int(det.total_samples), "since": int(det.samples_since_reset), "state": st(det.drift_state),
         "nrows": int(len(df))}
    if len(df):
        r = df.iloc[-1]
        e.update(mean=num(_scalar(r["mean_values"])), sum=num(_scalar(r["page_hinkley_values"])),
                 theta=num(_scalar(r["theta_threshold"])), mn=num(_scalar(r["minimum_sum_values"])),
                 mx=num(_scalar(r["maximum_sum_values"])), diff=num(_scalar(r["page_hinkley_differences"])),
                 chk=bool(np.asarray(r["drift_detected"]).ravel()[0]))
    else:
        e.update(mean="0.0", sum="0.0", theta="0.0", mn="0.0", mx="0.0", diff="0.0", chk=False)
    return e


def ph_run(p, script, wrap=None):
    """script: list of ("update", x) | ("reset",) | ("bad", obj)  - obj is handed to update and must be refused"""
    det = ph_make(p)
    from .core import Neighbour
    nb = Neighbour(ph_make(p), lambda o, u: o.update(8.0 * u - 2.0), len(script))
    ev = []
    for step in script:
        nb.step()
        if step[0] == "update":
            x = step[1]
            det.update(wrap(x) if wrap else x)
            ev.append(ph_project(det, "update", x))
        elif step[0] == "reset":
            det.reset()
            ev.append(ph_project(det, "reset"))
        else:
            try:
                det.update(step[1])
                ev.append(ph_project(det, "bad-accepted"))
            except Exception as ex:  # noqa
                ev.append(ph_project(det, "bad", None, type(ex).__name__))
    return {"cfg": ph_cfg(p), "ev": ev, "kind": "PageHinkley", "params": p,
            "script": [list(s) if s[0] != "bad" else ["bad", repr(s[1])] for s in script]}


# ------------------------------------------------------------------ CUSUM
def cu_make(p):
    from menelaus.change_detection import CUSUM
    return CUSUM(target=p["target"], sd_hat=p["sd_hat"], burn_in=p["burn_in"], delta=p["delta"],
                 threshold=p["threshold"], direction=p["direction"])


def cu_cfg(p):
    return {"burn": int(p["burn_in"]), "delta": num(p["delta"]), "thr": num(p["threshold"]),
            "dir": p["direction"] or "both", "target0": num(p["target"]), "sd0": num(p["sd_hat"])}


def cu_project(det, op, x=None, raised="None", counted=False):
    e = {"op": op, "x": num(x) if x is not None else "NA", "raised": raised, "counted": bool(counted),
         "total": int(det.total_samples), "since": int(det.samples_since_reset), "state": st(det.drift_state),
         "target": num(_scalar(det.target)) if det.target is not None else "None",
         "sd": num(_scalar(det.sd_hat)) if det.sd_hat is not None else "None", "sh": "NA", "sl": "NA"}
    try:  # optional private reads (soundness rule 1: absence only widens the specification's freedom)
        e["sh"] = num(_scalar(det._upper_bound[-1]))
        e["sl"] = num(_scalar(det._lower_bound[-1]))
    except Exception:  # noqa
        pass
    return e


def cu_run(p, script, wrap=None):
    det = cu_make(p)
    from .core import Neighbour
    nb = Neighbour(cu_make(p), lambda o, u: o.update(8.0 * u - 2.0), len(script))
    ev = []
    for step in script:
        nb.step()
        if step[0] == "update":
            x = step[1]
            before = det.total_samples
            try:
                det.update(wrap(x) if wrap else x)
                ev.append(cu_project(det, "update", x))
            except ValueError as ex:
                ev.append(cu_project(det, "update", x, "ValueError", det.total_samples != before))
        elif step[0] == "reset":
            det.reset()
            ev.append(cu_project(det, "reset"))
        else:
            before = det.total_samples
            try:
                det.update(step[1])
                ev.append(cu_project(det, "bad-accepted"))
            except Exception as ex:  # noqa
                ev.append(cu_project(det, "bad", None, type(ex).__name__, det.total_samples != before))
    return {"cfg": cu_cfg(p), "ev": ev, "kind": "CUSUM", "params": p,
            "script": [list(s) if s[0] != "bad" else ["bad", repr(s[1])] for s in script]}


# ------------------------------------------------------------------ streams
def shifty_stream(rng, n, seg=(15, 80), levels=(-4, 8), noise=(0.2, 1.5), grid=None):
    """piecewise-constant level plus noise; many level shifts so that a detector alarms repeatedly"""
    out = []
    while len(out) < n:
        mu = rng.uniform(*levels)
        sd = rng.uniform(*noise)
        for _ in range(rng.randint(*seg)):
            v = rng.gauss(mu, sd)
            if grid:
                v = round(v / grid) * grid
            out.append(v)
    return out[:n]


def sabotage(trace, rng):
    ev = trace["ev"]
    ok = [k for k, e in enumerate(ev) if e["op"] == "update" and e["raised"] == "None"]
    if len(ok) < 2:
        return None
    k = rng.choice(ok)
    e = ev[k]
    which = rng.choice(["since", "total", "state"] + (["sum"] if "sum" in e else ["target"] if e.get("target", "None") != "None" else []))
    if which in ("since", "total"):
        e[which] += 1
    elif which == "state":
        e["state"] = "drift" if e["state"] == "None" else "None"
    else:
        e[which] = num(float(e[which]) + 1e-3 * (1 + abs(float(e[which]))))
    return trace, k + 1, which
