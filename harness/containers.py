"""The shapes in which callers hand data to detectors.

A detector's outputs are a function of the VALUES it is given.  Every functional driver therefore draws, per call,
one of the legal containers below (deterministically from a seed, so that replays are exact): float / integer
ndarrays in C or Fortran order, strided views, Python lists holding ints where the value is whole, one-row / multi-row
DataFrames, Series, and views of ONE buffer that the caller refills in place for every later call (chunked reading
into a preallocated array).  None of this may change what a detector reports.
"""
import random

import numpy as np
import pandas as pd

ROW_KINDS = ("array2d", "array1d", "list2d", "list1d", "intarray", "frame", "series", "reused1d", "reused2d", "tuple")
BATCH_KINDS = ("array", "fortran", "frame", "lists", "intarray", "strided", "reused", "intframe", "dupframe", "dupindex")


LOOSE_BATCH_KINDS = ("objarray", "objframe")       # accepted by HDDDM / CDBD / the kdq-tree detectors

NARROW = {"uint8array": (np.uint8, 0, 255), "uint16array": (np.uint16, 0, 65535), "int32array": (np.int32, -2 ** 31, 2 ** 31 - 1)}


NARROW_SCALARS = {"uint8scalar": "uint8array", "int16scalar": "int16array", "int32scalar": "int32array"}
NARROW["int16array"] = (np.int16, -2 ** 15, 2 ** 15 - 1)


def _narrow(kind, values):
    """the narrow integer dtype of `kind` when every value is whole and representable (sensor bytes, 16-bit counts), float64 otherwise"""
    dt, lo, hi = NARROW[kind]
    return dt if all(_whole(v) and lo <= v <= hi for v in values) else float


def _whole(v):
    return float(v) == int(v)


def _pyrow(row):
    return [int(v) if _whole(v) else float(v) for v in row]


class Feeder:
    """kinds: the containers this trace draws from (one -> every call uses it; several -> a fresh draw per call)"""

    def __init__(self, seed, kinds, names=None):
        self.rng = random.Random(seed)
        self.kinds = list(kinds)
        self.names = names
        self._ring, self._k = None, 0
        self._buf = None
        self.used = []

    def describe(self):
        return {"kinds": self.kinds}

    def _names(self, d):
        if "dupframe" in self.kinds:          # every frame of this trace carries the same label on all of its columns (pd.concat of same-named Series)
            return ["f"] * d
        return self.names or ["f%d" % i for i in range(d)]

    # ---- one observation for a streaming detector ------------------------------------------------
    def row(self, x):
        x = list(x) if isinstance(x, (list, tuple, np.ndarray)) else [x]
        d = len(x)
        kind = self.kinds[0] if len(self.kinds) == 1 else self.rng.choice(self.kinds)
        self.used.append(kind)
        if kind == "array2d":
            return np.array([x], dtype=float)
        if kind == "array1d":
            return np.array(x, dtype=float)
        if kind == "list2d":
            return [_pyrow(x)]
        if kind == "list1d":
            return _pyrow(x)
        if kind == "tuple":
            return tuple(_pyrow(x))
        if kind == "intarray":
            return np.array([x], dtype=np.int64 if all(_whole(v) for v in x) else float)
        if kind in NARROW:
            return np.array([x], dtype=_narrow(kind, x))
        if kind in NARROW_SCALARS:       # a numpy scalar of the narrow type (one element read out of a sensor array)
            dt = _narrow(NARROW_SCALARS[kind], x)
            return dt(x[0]) if d == 1 else np.array([x], dtype=dt)
        if kind == "frame":
            # (a one-row slice of a larger frame keeps the row label of the position it came from: 0, the running position, or anything else)
            self._k += 1
            return pd.DataFrame([[float(v) for v in x]], columns=self._names(d), index=[self.rng.choice([0, 0, self._k, 7, "r%d" % self._k])])
        if kind == "series":
            return pd.Series([float(v) for v in x], index=self._names(d))
        if kind in ("reused1d", "reused2d"):
            if self._ring is None or self._ring.shape[1] != d:
                self._ring = np.zeros((7, d))
            i = self._k % len(self._ring)
            self._k += 1
            self._ring[i, :] = x
            return self._ring[i] if kind == "reused1d" else self._ring[i:i + 1]
        if kind == "scalar":
            return _pyrow(x)[0]          # a Python int when the value is whole
        if kind in ("bool", "npbool", "boolarray"):      # a 0/1 indicator handed over as the comparison it came from
            if all(v in (0, 1) for v in x):
                return bool(x[0]) if kind == "bool" else (np.bool_(x[0]) if kind == "npbool" else np.array([[bool(v) for v in x]]))
            return _pyrow(x)[0] if d == 1 else np.array([x], dtype=float)
        raise KeyError(kind)

    # ---- a batch for a batch detector ---------------------------------------------------------------
    def batch(self, rows):
        a = np.array(rows, dtype=float)
        kind = self.kinds[0] if len(self.kinds) == 1 else self.rng.choice(self.kinds)
        self.used.append(kind)
        n, d = a.shape
        if kind == "array":
            return a
        if kind == "fortran":
            return np.asfortranarray(a)
        if kind in ("frame", "dupframe"):
            # row labels as they come: pandas' default, a slice of a larger frame (labels start elsewhere), a shuffled frame - rows are rows
            style = self.rng.choice(["default", "default", "offset", "shuffled"])
            idx = None if style == "default" else (range(1000, 1000 + n) if style == "offset" else self.rng.sample(range(n), n))
            return pd.DataFrame(a, columns=self._names(d), index=idx)
        if kind == "dupindex":         # row labels that repeat (batches glued with pd.concat without ignore_index): rows are rows
            return pd.DataFrame(a, columns=self._names(d), index=[i % 4 for i in range(n)])
        if kind == "intframe":
            whole = bool(np.all(a == np.round(a)))
            return pd.DataFrame(a.astype(np.int64) if whole else a, columns=self._names(d))
        if kind == "lists":
            return [_pyrow(r) for r in rows]
        if kind in ("objarray", "objframe"):     # decoded records: an object-typed table of Python ints (where whole) and floats
            o = np.empty((n, d), dtype=object)
            for i, r in enumerate(rows):
                for j, v in enumerate(_pyrow(r)):
                    o[i, j] = v
            return o if kind == "objarray" else pd.DataFrame(o, columns=self._names(d))
        if kind == "intarray":
            return a.astype(np.int64) if bool(np.all(a == np.round(a))) else a
        if kind in NARROW:
            return a.astype(_narrow(kind, a.ravel().tolist()))
        if kind == "strided":
            big = np.full((2 * n, d + 1), -12345.0)
            big[::2, :d] = a
            return big[::2, :d]
        if kind == "reused":
            if self._buf is None or self._buf.shape[1] != d or self._buf.shape[0] < n:
                self._buf = np.zeros((max(64, 2 * n), d))
            self._buf[:] = -777.0            # whatever was handed over before is overwritten now
            self._buf[:n] = a
            return self._buf[:n]
        raise KeyError(kind)


def draw_kinds(rng, pool, mixed_share=0.5):
    """one container for the whole trace, or a mix of two to four"""
    pool = list(pool)
    if rng.random() < mixed_share and len(pool) > 1:
        return rng.sample(pool, rng.randint(2, min(4, len(pool))))
    return [rng.choice(pool)]


def feeder_of(p, default):
    """the Feeder described by p["feed"] = {"seed", "kinds"} (carried inside the parameters so that replays rebuild it), or a
    single-container feeder of the driver's traditional kind"""
    f = p.get("feed") if isinstance(p, dict) else None
    if isinstance(f, dict):
        return Feeder(f["seed"], f["kinds"])
    return Feeder(0, [default])


def choose(rng, p, pool, mixed_share=0.5):
    """put a feed descriptor into the parameters p (in place) and return p"""
    p["feed"] = {"seed": rng.randrange(10 ** 6), "kinds": draw_kinds(rng, pool, mixed_share)}
    return p


UNIVARIATE_KINDS = ("scalar",) + ROW_KINDS


def wrap_of(desc):
    """a one-value wrapper for the univariate streaming detectors from a descriptor {"seed", "kinds"} (or a kind name)"""
    if isinstance(desc, str):
        desc = {"seed": 0, "kinds": [desc]}
    return Feeder(desc["seed"], desc["kinds"], names=["a"]).row


def draw_wrap(rng, mixed_share=0.5):
    return {"seed": rng.randrange(10 ** 6), "kinds": draw_kinds(rng, UNIVARIATE_KINDS, mixed_share)}
