"""Driver for HDDDM / CDBD (histogram density method) on integer data."""
import numpy as np
import pandas as pd
import scipy.stats

from .core import num, st


def tv_divergence(r, t):
    """a user-supplied divergence: total variation distance between the two normalised histograms"""
    r = np.asarray(r, dtype=float)
    t = np.asarray(t, dtype=float)
    return float(np.sum(np.abs(r / r.sum() - t / t.sum())) / 2)


def make(p):
    from menelaus.data_drift import HDDDM, CDBD
    if p["cls"] == "CDBD":
        div = {"JS": "KL", "TV": tv_divergence, "H": "H"}[p["div"]]
        return CDBD(divergence=div, detect_batch=p["db"], statistic=p["stat"], significance=p["sig"], subsets=p["subsets"])
    div = {"H": "H", "JS": "KL", "TV": tv_divergence}[p["div"]]
    return HDDDM(detect_batch=p["db"], divergence=div, statistic=p["stat"], significance=p["sig"], subsets=p["subsets"])


def cfg(p, maxdf):
    ttab = []
    if p["stat"] == "tstat":
        ttab = [num(scipy.stats.t.ppf(1 - p["sig"] / 2, df)) for df in range(1, maxdf + 1)]
    return {"db": p["db"], "stat": p["stat"], "sig": num(p["sig"]), "div": p["div"], "F": p["F"], "ttab": ttab}


def project(det, op, data, p, e0="None"):
    t = int(det.total_batches)
    e = {"op": op, "data": data, "e0": e0, "total": t, "since": int(det.batches_since_reset), "state": st(det.drift_state),
         "dist": "None", "eps": "None", "beta": "None", "refn": int(len(det.reference)), "argmax": -1, "fdists": []}
    if op == "update":
        e["dist"] = num(det.current_distance)
        if t in det.epsilon_values:
            e["eps"] = num(det.epsilon_values[t])
        if t in det.thresholds:
            e["beta"] = num(det.thresholds[t])
        if det.drift_state == "drift" and p["F"] > 1:
            fi = det.feature_info
            e["argmax"] = int(fi["Significant_drift_in_variable "])
            e["fdists"] = [num(v) for v in fi["Feature_Distances"]]
    return e


def run(p, script, seed=0, frame=True, permute=None):
    """script: ("set_reference", rows) | ("update", rows) | ("reset",).  rows: list of integer rows."""
    det = make(p)
    ev = []
    maxdf = 2 + sum(len(s[1]) for s in script if len(s) > 1)

    from .containers import feeder_of
    feeder = feeder_of(p, "frame" if frame else "array")

    halves = bool(p.get("halves"))     # the detector receives x / 2 (histograms on common edges are scale-equivariant, halving is exact): batches on
    #                                    the even lattice then arrive with an integer dtype, the others carry fractions

    def wrap(rows):
        a = np.array(rows, dtype=float)
        if permute is not None:
            a = a[permute(len(a))]
        if halves:
            a = a / 2
        return feeder.batch(a.tolist())

    from .core import Neighbour
    F_ = p["F"]
    nb_det = make(dict(p, sig=(0.3 if p["stat"] == "tstat" else 1.5)))
    nb_det.set_reference(np.array([[float((7 * i + 3 * f) % 11) for f in range(F_)] for i in range(20)]))
    nb = Neighbour(nb_det, lambda o, u: o.update(np.array([[float((int(u * 1000) + 5 * i + f) % 13) for f in range(F_)] for i in range(16)])), len(script))
    for t, s in enumerate(script):
        nb.step()
        np.random.seed((seed * 7919 + t) % (2 ** 32))
        if s[0] == "set_reference":
            det.set_reference(wrap(s[1]))
            ev.append(project(det, "set_reference", s[1], p))
        elif s[0] == "reset":
            det.reset()
            ev.append(project(det, "reset", [], p))
        elif s[0] == "bad":
            # a malformed update in between (a single row, or one column too many): refused
            bad = np.zeros((1, p["F"])) if t % 2 else np.zeros((6, p["F"] + 1))
            try:
                det.update(bad)
                ev.append(project(det, "bad-accepted", [], p))
            except ValueError:
                ev.append(project(det, "bad", [], p))
        else:
            det.update(wrap(s[1]))
            e0 = "None"
            if det.batches_since_reset == 2 and p["db"] != 3 and len(det.epsilon) >= 1:
                e0 = num(det.epsilon[0])       # public list: the bootstrapped estimate sits in front
            ev.append(project(det, "update", s[1], p, e0))
    return {"cfg": cfg(p, maxdf), "ev": ev, "params": p, "script": [list(s) for s in script], "seed": seed, "frame": frame}


def params(rng):
    cls = rng.choice(["HDDDM", "HDDDM", "CDBD"])
    stat = rng.choice(["stdev", "tstat"])
    return {"cls": cls, "db": rng.choice([1, 2, 3]), "stat": stat,
            "sig": rng.choice([0.5, 1.0, 2.0]) if stat == "stdev" else rng.choice([0.05, 0.2, 0.01, 0.6, 0.9]),
            "div": rng.choice(["H", "H", "JS", "TV"]) if cls == "HDDDM" else rng.choice(["JS", "JS", "H", "TV"]),
            "F": 1 if cls == "CDBD" else rng.choice([1, 2, 3]), "subsets": rng.choice([3, 4, 5])}


def batch(rng, F, loc, spread, n=None, even=False):
    n = n or rng.choice([8, 9, 12, 15, 20, 25, 30, 45, 49, 60, 81, 3, 4, 5])      # (a handful of rows is a legal batch; three is the least a detect_batch=1 reference can be split from)
    if even:
        return [[2 * ((loc[f] + rng.randint(0, spread)) // 2) for f in range(F)] for _ in range(n)]
    return [[loc[f] + rng.randint(0, spread) for f in range(F)] for _ in range(n)]


def history(rng, p, nb, sizes=None, bads=False):
    F = p["F"]
    loc = [rng.randint(-5, 5) for _ in range(F)]
    spread = rng.randint(6, 14)
    ev_ = bool(p.get("halves"))
    script = [("set_reference", batch(rng, F, loc, spread, n=rng.choice(sizes) if sizes else None, even=ev_))]
    if rng.random() < 0.15:
        # the stream starts by replaying the reference (twice, rows in another order): the first two distances of the epoch are exactly equal,
        # the first observed epsilon is exactly 0
        for _ in range(2):
            rows = [list(r) for r in script[0][1]]
            rng.shuffle(rows)
            script.append(("update", rows))
    for b in range(nb):
        r = rng.random()
        if r < 0.3:
            k = rng.randrange(F)
            loc = list(loc)
            loc[k] += rng.choice([-1, 1]) * rng.choice([3, 8, 20])
        elif r < 0.4:
            spread = rng.randint(3, 25)
        if rng.random() < 0.06 and b > 1:
            script.append(("set_reference", batch(rng, F, loc, spread, n=rng.choice(sizes) if sizes else None, even=ev_)))
        elif rng.random() < 0.04 and b > 1:
            script.append(("reset",))
        if bads and rng.random() < 0.15:
            script.append(("bad",))
        if rng.random() < 0.05:
            script.append(("update", [list(r) for r in script[0][1]]))     # a batch identical to the first reference
        else:
            script.append(("update", batch(rng, F, loc, spread, n=rng.choice(sizes) if sizes else None, even=ev_ and rng.random() < 0.3)))
    # some batches arrive as sorted exports (ascending or descending): a batch is a multiset to HDDDM / CDBD
    out = []
    for step in script:
        r = rng.random()
        if len(step) > 1 and r < 0.3:
            step = (step[0], sorted(step[1], reverse=r < 0.1))
        out.append(step)
    return out


def grazing(rng):
    """histories in which one batch's epsilon lies a few parts per million above (or below) the adaptive bound: with statistic="stdev" the bound
    is mean + significance * deviation of the epoch's earlier epsilons, so a significance is solved for that puts the bound next to the epsilon
    of the epoch's first thresholded batch (two probing runs give the line).  "Exceeds" means exceeds - by any margin."""
    cls = rng.choice(["HDDDM", "CDBD"])
    p = {"cls": cls, "db": 3, "stat": "stdev", "sig": 1.0, "div": rng.choice(["H", "JS"]), "F": 1 if cls == "CDBD" else rng.choice([1, 2]), "subsets": 3}
    F = p["F"]
    loc, spread = [rng.randint(-5, 5) for _ in range(F)], rng.randint(6, 14)
    script = [("set_reference", batch(rng, F, loc, spread, n=rng.choice([30, 49, 60])))]
    for b in range(7):
        loc = [x + rng.choice([0, 0, 1, -1]) for x in loc]
        script.append(("update", batch(rng, F, loc, spread, n=rng.choice([25, 30, 45]))))
    seed, frame = rng.randrange(10 ** 6), rng.random() < 0.5
    t1, t2 = run(p, script, seed, frame), run(dict(p, sig=2.0), script, seed, frame)
    k = next((i for i, e in enumerate(t1["ev"]) if e["beta"] != "None"), None)
    if k is None or t2["ev"][k]["beta"] == "None":
        return None
    b1, b2, eps = float(t1["ev"][k]["beta"]), float(t2["ev"][k]["beta"]), float(t1["ev"][k]["eps"])
    slope = b2 - b1
    if not slope > 1e-6:
        return None
    side = rng.choice([1 + 5e-6, 1 + 2e-6, 1 - 5e-6])
    sig = (eps / side - (b1 - slope)) / slope
    if not sig > 1e-3:
        return None
    t = run(dict(p, sig=sig), script, seed, frame)
    t["graze"] = side
    return t


def sabotage(trace, rng):
    ks = [k for k, e in enumerate(trace["ev"]) if e["op"] == "update"]
    k = rng.choice(ks)
    e = trace["ev"][k]
    w = rng.choice(["state", "since", "dist"] + (["beta"] if e["beta"] != "None" else []))
    if w == "state":
        e["state"] = "drift" if e["state"] == "None" else "None"
    elif w == "since":
        e["since"] += 1
    else:
        e[w] = num(float(e[w]) + 1e-3)
    return trace, k + 1, w
