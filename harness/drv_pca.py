"""Driver for PCACD with an independent score kernel (sklearn / numpy directly, not via menelaus)."""
import numpy as np
from scipy.spatial.distance import jensenshannon
from sklearn.decomposition import PCA
from sklearn.neighbors import KernelDensity
from sklearn.preprocessing import StandardScaler

from .core import num, st


def _kde_density(sample):
    n = len(sample)
    bw = 1.06 * np.std(sample, ddof=1) * (n ** (-1 / 5))
    k = KernelDensity(bandwidth=bw, kernel="epanechnikov").fit(sample.reshape(-1, 1))
    return np.exp(k.score_samples(sample.reshape(-1, 1)))


class Kernel:
    """The documented score: project reference and test windows on the principal components of the
    reference window that reach ev_threshold; per component the Jensen-Shannon distance of the two kernel
    density estimates, or one minus the intersection of two histograms built on the SAME bin edges FOR
    THAT COMPONENT (range of that component over reference window and the test window at build time,
    later test scores clipped to it); return the maximum."""

    def __init__(self, ref, build_test, ev_threshold, metric, bins, scaling):
        self.metric, self.bins, self.scaling = metric, bins, scaling
        if scaling:
            self.scaler = StandardScaler().fit(ref)
            ref, build_test = self.scaler.transform(ref), self.scaler.transform(build_test)
        self.pca = PCA(ev_threshold).fit(ref)
        self.npcs = len(self.pca.components_)
        self.refp = self.pca.transform(ref)
        bp = self.pca.transform(build_test)
        self.lower = np.minimum(self.refp.min(axis=0), bp.min(axis=0))
        self.upper = np.maximum(self.refp.max(axis=0), bp.max(axis=0))

    def score(self, test, n_build_rows_left):
        """test: the current test window (raw rows).  Rows that were already in the window at build time were
        projected unclipped (they defined the support); later rows are clipped to the support."""
        t = self.scaler.transform(test) if self.scaling else test
        tp = self.pca.transform(t)
        out = []
        for i in range(self.npcs):
            if self.metric == "intersection":
                col = tp[:, i].copy()
                col[n_build_rows_left:] = np.clip(col[n_build_rows_left:], self.lower[i], self.upper[i])
                hr = np.histogram(self.refp[:, i], bins=self.bins, range=(self.lower[i], self.upper[i]), density=True)[0]
                ht = np.histogram(col, bins=self.bins, range=(self.lower[i], self.upper[i]), density=True)[0]
                out.append(1 - np.sum(np.minimum(hr / hr.sum(), ht / ht.sum())))
            else:
                out.append(jensenshannon(_kde_density(self.refp[:, i]), _kde_density(tp[:, i])))
        return float(max(out))


def run(p, xs, resets=(), seed=0):
    """p: window_size, ev_threshold, delta, divergence_metric, sample_period, online_scaling; xs: list of rows"""
    from menelaus.data_drift import PCACD
    det = PCACD(window_size=p["window_size"], ev_threshold=p["ev_threshold"], delta=p["delta"],
                divergence_metric=p["divergence_metric"], sample_period=p["sample_period"],
                online_scaling={"npbool": np.bool_(True), "one": 1}.get(p.get("flag"), p["online_scaling"]))      # ("flag": a truthy value that is not the builtin True)
    W = p["window_size"]
    step = min(100, round(p["sample_period"] * W))
    bins = int(np.floor(np.sqrt(W)))
    X = np.array(xs, dtype=float)
    from .containers import feeder_of
    feeder = feeder_of(p, "array2d")
    nb = None
    if p.get("neighbour"):
        # a second PCACD of the same configuration on a smaller window, living next to the observed one on an unrelated stream whose level
        # jumps every few windows (so it rebuilds its reference again and again): what ONE detector reports is a function of what IT was given
        from .core import Neighbour
        Wn = max(8, W // 2 + 3)
        cnt = [0]

        def feed(o, u, d=X.shape[1]):
            cnt[0] += 1
            o.update(np.array([[40.0 * ((u * (j + 3)) % 1) + 300.0 * ((cnt[0] // (3 * Wn)) % 2) for j in range(d)]]))
        nb = Neighbour(PCACD(window_size=Wn, ev_threshold=p["ev_threshold"], delta=p["delta"], divergence_metric=p["divergence_metric"],
                             sample_period=p["sample_period"], online_scaling=p["online_scaling"]), feed, seed)
    ev = []
    # the harness mirrors the documented protocol only to know WHICH ranges to hand to the kernel; the
    # specification re-derives these ranges and rejects the trace if they differ
    phase, ref, build, test = "FillRef", None, None, None
    kern = None
    nsc = 0
    none = [0, 0]
    for t in range(1, len(xs) + 1):
        if t - 1 in resets and phase != "Drifted":
            det.reset()
            ev.append({"op": "reset", "total": int(det.total_samples), "since": int(det.samples_since_reset), "state": st(det.drift_state),
                       "npcs": 0, "obs": "NA", "k": {"npcs": 0, "score": "0.0", "ref": none, "build": none, "test": none}})
        if nb:
            nb.step()
        if t in p.get("bads", ()):
            # a malformed call in between (two observations at once / one column too many): refused, and as if it had never been made
            badX = np.zeros((2, X.shape[1])) if t % 2 else np.zeros((1, X.shape[1] + 1))
            try:
                det.update(badX)
                op = "bad-accepted"
            except ValueError:
                op = "bad"
            ev.append({"op": op, "total": int(det.total_samples), "since": int(det.samples_since_reset), "state": st(det.drift_state),
                       "npcs": 0, "obs": "NA", "k": {"npcs": 0, "score": "0.0", "ref": none, "build": none, "test": none}})
        np.random.seed((seed + t) % (2 ** 32))
        err = None
        try:
            det.update(feeder.row(X[t - 1].tolist()))
        except Exception as ex:  # noqa
            err = ex
        k = {"npcs": 0, "score": "0.0", "ref": ref or none, "build": build or none, "test": none}
        if phase == "Drifted":
            ref, test, build, phase = test, None, None, "FillTest"
        elif phase == "FillRef":
            ref = [ref[0], t] if ref else [t, t]
            if ref[1] - ref[0] + 1 == W:
                phase = "FillTest"
        elif phase == "FillTest":
            test = [test[0], t] if test else [t, t]
            if test[1] - test[0] + 1 == W:
                build = list(test)
                try:
                    kern = Kernel(X[ref[0] - 1:ref[1]], X[build[0] - 1:build[1]], p["ev_threshold"], p["divergence_metric"], bins, p["online_scaling"])
                    k = {"npcs": kern.npcs, "score": "0.0", "ref": list(ref), "build": list(build), "test": none}
                except Exception:  # noqa - the detector left the documented protocol (the specification rejects the trace); no kernel value
                    kern = None
                    k = {"npcs": -1, "score": "NaN", "ref": list(ref), "build": list(build), "test": none}
                phase = "Monitor"
        else:
            test = [test[0] + 1, test[1] + 1]
            if (t - 1) % step == 0 and t != 1:
                left = max(0, build[1] - test[0] + 1)
                try:
                    sc = kern.score(X[test[0] - 1:test[1]], left)
                    k = {"npcs": kern.npcs, "score": num(sc), "ref": list(ref), "build": list(build), "test": list(test)}
                except Exception:  # noqa - ranges that are no windows: only reachable after the detector left the protocol
                    k = {"npcs": -1, "score": "NaN", "ref": list(ref), "build": list(build), "test": list(test)}
        if err is not None:
            ev.append({"op": "update", "total": int(det.total_samples), "since": int(det.samples_since_reset), "state": "raised " + type(err).__name__,
                       "npcs": -1, "obs": "NA", "k": k})
            break
        obs = "NA"
        try:
            cs = det._change_score          # optional private read
            obs = num(float(cs[-1])) if len(cs) - 1 > nsc else "None"
            nsc = len(cs) - 1
        except Exception:  # noqa
            pass
        if det.drift_state == "drift":
            phase = "Drifted"
        ev.append({"op": "update", "total": int(det.total_samples), "since": int(det.samples_since_reset), "state": st(det.drift_state),
                   "npcs": int(det.num_pcs) if det.num_pcs is not None else 0, "obs": obs, "k": k})
    cfg = {"W": W, "step": step, "delta": num(p["delta"]), "phthr": int(round(0.01 * W))}
    return {"cfg": cfg, "ev": ev, "params": p, "xs": [list(map(float, r)) for r in xs], "resets": list(resets), "seed": seed}


def stream(rng, n, d, W):
    """multivariate gaussian stream with level / variance / correlation shifts every few windows"""
    nr = np.random.RandomState(rng.randrange(2 ** 31))
    out = []
    mean = nr.normal(0, 1, d)
    A = nr.normal(0, 1, (d, d))
    while len(out) < n:
        seg = rng.randint(2 * W, 5 * W)
        out.extend((nr.normal(0, 1, (seg, d)) @ A.T + mean).tolist())
        r = rng.random()
        if r < 0.4:
            mean = mean + nr.normal(0, 3, d)
        elif r < 0.7:
            A = A * rng.choice([0.3, 3.0])
        else:
            A = nr.normal(0, 1, (d, d))
    return out[:n]


def idle_feature_stream(rng, n, d, W):
    """one feature sits at a constant value (an idle sensor) for the first windows - also over a whole reference window - and wakes up later"""
    nr = np.random.RandomState(rng.randrange(2 ** 31))
    xs = np.array(stream(rng, n, d, W), dtype=float)
    j = rng.randrange(d)
    wake = rng.randint(2 * W + 5, 4 * W)
    xs[:wake, j] = float(rng.choice([0.0, 1.0, -3.5]))
    xs[wake:, j] = xs[wake:, j] * rng.choice([1.0, 3.0]) + nr.normal(0, 1)
    return xs.tolist()


def int_then_float_stream(rng, n, d, W):
    """the first windows hold whole numbers (counts) - handed over with an integer dtype by the containers that keep ints - later rows are fractional"""
    xs = np.array(stream(rng, n, d, W), dtype=float) * 3.0
    k = 2 * W + rng.randint(0, W)
    xs[:k] = np.round(xs[:k])
    return xs.tolist()


def restless_stream(rng, n, d, W):
    """after two quiet windows the level jumps again and again at intervals shorter than a window: every drift is
    followed by another change before the detector can have collected a new reference window"""
    nr = np.random.RandomState(rng.randrange(2 ** 31))
    mean = nr.normal(0, 1, d)
    out = (nr.normal(0, 1, (2 * W + rng.randint(0, W), d)) + mean).tolist()
    while len(out) < n:
        mean = mean + nr.choice([-1, 1], d) * nr.uniform(4, 8, d)
        out.extend((nr.normal(0, 1, (rng.randint(max(3, W // 4), W), d)) + mean).tolist())
    return out[:n]


def params(rng):
    W = rng.choice([20, 30, 40, 100])
    return {"window_size": W, "ev_threshold": rng.choice([0.99, 0.9, 0.6]), "delta": rng.choice([0.1, 0.05, 0.01]),
            "divergence_metric": rng.choice(["kl", "intersection"]), "sample_period": rng.choice([0.05, 0.1, 0.2]),
            "online_scaling": rng.random() < 0.6}


def sabotage(trace, rng):
    ks = [k for k, e in enumerate(trace["ev"]) if e["op"] == "update"]
    k = rng.choice(ks)
    e = trace["ev"][k]
    w = rng.choice(["state", "since", "total"])
    if w == "state":
        e["state"] = "drift" if e["state"] == "None" else "None"
    else:
        e[w] += 1
    return trace, k + 1, w
