"""Drivers for ADWIN and ADWINAccuracy."""
import numpy as np

from .core import num, st, recs


def make(p, accuracy=False):
    kw = dict(delta=p["delta"], max_buckets=p["max_buckets"], new_sample_thresh=p["new_sample_thresh"],
              window_size_thresh=p["window_size_thresh"], subwindow_size_thresh=p["subwindow_size_thresh"],
              conservative_bound=p["conservative_bound"])
    if accuracy:
        from menelaus.concept_drift import ADWINAccuracy
        return ADWINAccuracy(**kw)
    from menelaus.change_detection import ADWIN
    return ADWIN(**kw)


def cfg(p):
    return {"delta": num(p["delta"]), "M": int(p["max_buckets"]), "T": int(p["new_sample_thresh"]),
            "wthr": int(p["window_size_thresh"]), "sthr": int(p["subwindow_size_thresh"]),
            "cons": bool(p["conservative_bound"])}


def project(det, op, x=None, raised="None"):
    e = {"op": op, "x": num(x) if x is not None else "NA", "raised": raised,
         "total": int(det.total_samples), "since": int(det.samples_since_reset), "state": st(det.drift_state),
         "recs": recs(list(det.retraining_recs)), "w": -1}
    try:
        e["mean"] = num(float(det.mean()))
        e["variance"] = num(float(det.variance()))
    except Exception as ex:  # noqa
        e["mean"], e["variance"] = "NaN", "NaN"
    try:
        e["w"] = int(det._window_size)   # optional private read
    except Exception:  # noqa
        pass
    return e


def run(p, script, wrap=None, accuracy=False, enc=None):
    """script: ("update", x) | ("reset",) | ("bad", obj).  accuracy: drive ADWINAccuracy with labels
    whose agreement indicator is x (x must be 0/1); enc(x, t) -> (y_true, y_pred)."""
    det = make(p, accuracy)
    from .core import Neighbour
    nb = Neighbour(make(p, accuracy), (lambda o, u: o.update(1, int(u < 0.7))) if accuracy else (lambda o, u: o.update(10.0 * u)), len(script))
    ev = []
    for t, step in enumerate(script):
        nb.step()
        if step[0] == "update":
            x = step[1]
            try:
                if accuracy:
                    yt, yp = enc(x, t) if enc else ((1, 1) if x else (1, 0))
                    det.update(yt, yp)
                else:
                    det.update(wrap(x) if wrap else x)
                ev.append(project(det, "update", x))
            except Exception as ex:  # noqa
                ev.append(project(det, "update", x, type(ex).__name__))
                break
        elif step[0] == "reset":
            det.reset()
            ev.append(project(det, "reset"))
        else:
            try:
                det.update(step[1])
                ev.append(project(det, "bad-accepted"))
            except Exception as ex:  # noqa
                ev.append(project(det, "bad", None, type(ex).__name__))
    return {"cfg": cfg(p), "ev": ev, "kind": "ADWINAccuracy" if accuracy else "ADWIN", "params": p,
            "script": [list(s) if s[0] != "bad" else ["bad", repr(s[1])] for s in script]}


def params(rng, small=False):
    if small:
        return {"delta": rng.choice([1.0, 0.3, 0.05]), "max_buckets": rng.choice([1, 2, 3]),
                "new_sample_thresh": rng.choice([1, 2, 4]), "window_size_thresh": rng.choice([2, 3]),
                "subwindow_size_thresh": rng.choice([1, 2]), "conservative_bound": rng.random() < 0.5}
    return {"delta": rng.choice([0.002, 0.01, 0.1, 0.5]), "max_buckets": rng.choice([1, 2, 3, 5, 5]),
            "new_sample_thresh": rng.choice([1, 3, 8, 32]), "window_size_thresh": rng.choice([3, 10, 10, 40, 80]),
            "subwindow_size_thresh": rng.choice([1, 3, 5]), "conservative_bound": rng.random() < 0.3}


def sabotage(trace, rng):
    ev = trace["ev"]
    ok = [k for k, e in enumerate(ev) if e["op"] == "update" and e["raised"] == "None"]
    if len(ok) < 2:
        return None
    k = rng.choice(ok)
    e = ev[k]
    which = rng.choice(["since", "total", "state", "mean", "variance"])
    if which in ("since", "total"):
        e[which] += 1
    elif which == "state":
        e["state"] = "drift" if e["state"] == "None" else "None"
    else:
        e[which] = num(float(e[which]) + 1e-3 * (1 + abs(float(e[which]))))
    return trace, k + 1, which
