"""Check context: evidence, violations, known findings, sabotage, trace bookkeeping."""
import json
import math
import os
import random
import sys
import time

from . import tlc
from .tlc import MachineryError, VERIF

EVID = os.environ.get("VERIF_EVIDENCE_DIR") or os.path.join(VERIF, "evidence")   # redirected only by seeded-change experiments
KNOWN = os.path.join(VERIF, "known_findings.json")


_WORK = None


class WorkerError(Exception):
    """an exception raised inside a pmap worker, with what main.py needs to classify it (the traceback does not survive the process boundary)"""

    def __init__(self, name, text, tb, in_impl, inner, kind_ok):
        Exception.__init__(self, "%s: %s" % (name, text))
        self.name, self.text, self.tb, self.in_impl, self.inner, self.kind_ok = name, text, tb, in_impl, inner, kind_ok


def describe_exception():
    """(name, text, traceback text, raised inside the code under test?, innermost file, is it a read-failure kind?) for the exception being handled"""
    import traceback
    et, ev, tb = sys.exc_info()
    frames = traceback.extract_tb(tb)
    repo = os.path.realpath(os.environ.get("VERIF_REPO", "/repo"))
    in_impl = any(os.path.realpath(f.filename).startswith(os.path.join(repo, "menelaus")) for f in frames)
    inner = frames[-1].filename if frames else ""
    kind_ok = isinstance(ev, (TypeError, AttributeError, KeyError, IndexError, ValueError, AssertionError))
    return et.__name__, str(ev)[:300], traceback.format_exc()[-3000:], in_impl, inner, kind_ok


def _call(i):
    fn, items = _WORK
    try:
        return fn(*items[i])
    except MachineryError:
        raise
    except Exception:  # noqa - classified in the parent
        return ("__WORKER_EXCEPTION__",) + describe_exception()


def pmap(fn, items, procs=None):
    """run fn(*args) for every args tuple in items on several processes (fork: closures need no pickling);
    results come back in order"""
    global _WORK
    import multiprocessing as mp
    items = list(items)
    procs = procs or min(14, max(1, (os.cpu_count() or 2) - 2))
    if len(items) < 4 or procs <= 1:
        return [fn(*a) for a in items]
    _WORK = (fn, items)
    try:
        with mp.get_context("fork").Pool(procs) as pool:
            out = pool.map(_call, range(len(items)), chunksize=max(1, len(items) // (procs * 8)))
        for r in out:
            if isinstance(r, tuple) and r and r[0] == "__WORKER_EXCEPTION__":
                raise WorkerError(*r[1:])
        return out
    finally:
        _WORK = None


def num(x):
    """float/int -> the decimal string module Num reads (repr round-trips doubles exactly)."""
    if x is None:
        return "None"
    x = float(x)
    if math.isnan(x):
        return "NaN"
    if math.isinf(x):
        return "Infinity" if x > 0 else "-Infinity"
    return repr(x)


def st(s):
    return "None" if s is None else str(s)


def idx(v):
    return -1 if v is None else int(v)


def recs(r):
    return [idx(r[0]), idx(r[1])]


def load_known():
    if not os.path.exists(KNOWN):
        return []
    with open(KNOWN) as f:
        return json.load(f)["findings"]


class Ctx:
    def __init__(self, pid, tier, seed):
        self.pid, self.tier, self.seed = pid, tier, seed
        self.rng = random.Random(seed * 1000003 + int(pid[1:]))
        self.t0 = time.time()
        self.states = 0
        self.transitions = 0
        self.traces = 0          # traces / behaviours of the real code validated
        self.events = 0
        self.nontrivial = 0      # traces with at least one drift/warning/raise (measured)
        self.samples = []
        self.violations = []     # (what, replay_path)
        self.known_hits = {}     # finding id -> count
        self.parts = {}          # per-stage numbers for the evidence file
        self.assumptions = []
        self.amb = 0
        self.sabotage = {"planted": 0, "rejected": 0}
        self.known = [k for k in load_known() if k["property"] == pid]
        self.quick = tier == "quick"

    # ---- model level -------------------------------------------------------------------
    def model(self, module, cfg=None, require_actions=(), **kw):
        res = tlc.model_check(module, cfg, require_actions=require_actions, **kw)
        self.states += res["distinct"]
        self.transitions += res["generated"]
        self.parts["model:" + (cfg or module)] = {"distinct": res["distinct"], "generated": res["generated"],
                                                  "depth": res["depth"], "wall_s": round(res["wall"], 1),
                                                  "actions": res.get("actions", {})}
        return res

    # ---- conformance A -----------------------------------------------------------------
    def validate(self, module, traces, label, sabotage=None, replay=None, dev_module=None, nontrivial=None,
                 shards=16, max_report=5, deque=False):
        """Validate traces (list of {"cfg","ev",...}) against Trace_<module>.
        sabotage: function(trace, rng) -> (mutated_trace, expected_reject_event_index) or None; a few
        sabotaged copies are validated in the same run and MUST be rejected exactly there.
        replay: function(i) -> JSON-able description that lets `--replay` re-run trace i.
        dev_module: Trace module variant with the deviation actions of the open known findings enabled.
        """
        if not traces:
            raise MachineryError("no traces for " + label)
        plain = [{"cfg": t["cfg"], "ev": t["ev"]} for t in traces]
        planted = []
        if sabotage:
            cand = list(range(len(traces)))
            self.rng.shuffle(cand)
            for i in cand:
                if len(planted) >= 6:
                    break
                r = sabotage(json.loads(json.dumps(plain[i])), self.rng)
                if r:
                    planted.append((i, r[0], r[1], r[2] if len(r) > 2 else ""))
        batch = plain + [p[1] for p in planted]
        verdicts, stats = tlc.validate_traces("Trace_" + module, batch, shards=shards, deque=deque)
        self.states += stats["distinct"]
        self.transitions += stats["generated"]
        # sabotage must bite
        for k, (i, mt, at, what) in enumerate(planted):
            v = verdicts[len(plain) + k]
            self.sabotage["planted"] += 1
            orig = verdicts[i]
            if orig is not None and v is not None and v["at"] == orig["at"] and (at is None or orig["at"] <= at):
                continue   # the unsabotaged trace is itself rejected no later: reported below, nothing to learn here
            if v is None or (at is not None and v["at"] != at):
                raise MachineryError("%s: sabotaged trace (%s at event %s) was %s - the trace specification does not bind"
                                     % (label, what, at, "accepted" if v is None else "rejected at %d" % v["at"]))
            self.sabotage["rejected"] += 1
        rejected = [i for i in range(len(plain)) if verdicts[i] is not None]
        # second pass: open known findings (deviation actions enabled)
        still = rejected
        if rejected and dev_module:
            for kf in self.known:
                if kf.get("status") != "open" or not kf.get("deviation"):
                    continue
                v2, _ = tlc.validate_traces("Trace_" + dev_module, [plain[i] for i in still], shards=shards,
                                            extra_env={"DEVIATIONS": kf["deviation"]}, deque=deque)
                nxt = []
                for j, i in enumerate(still):
                    if v2[j] is None:
                        self.known_hit(kf)
                    else:
                        nxt.append(i)
                still = nxt
        nev = sum(len(t["ev"]) for t in plain)
        self.traces += len(plain)
        self.events += nev
        nt = sum(1 for t in traces if (nontrivial(t) if nontrivial else _default_nontrivial(t)))
        self.nontrivial += nt
        self.parts["traces:" + label] = {"traces": len(plain), "events": nev, "nontrivial": nt,
                                         "rejected": len(rejected), "tlc_states": stats["distinct"],
                                         "wall_s": round(stats["wall"], 1), "sabotaged_rejected": len(planted)}
        if plain and len(self.samples) < 12:
            t = plain[self.rng.randrange(len(plain))]
            self.samples.append({"stage": label, "cfg": t["cfg"], "events": t["ev"][:6], "n_events": len(t["ev"])})
        for i in still[:max_report]:
            v = verdicts[i]
            ev = plain[i]["ev"][v["at"] - 1] if 0 < v["at"] <= len(plain[i]["ev"]) else None
            self.violation("%s: trace %d rejected at event %d; failing clauses %s" % (label, i, v["at"], v["clauses"][:6]),
                           {"stage": label, "module": module, "cfg": plain[i]["cfg"], "rejected_at": v["at"],
                            "clauses": v["clauses"], "event": ev, "prefix": plain[i]["ev"][max(0, v["at"] - 4):v["at"]],
                            "replay": replay(i) if replay else None})
        if len(still) > max_report:
            self.parts["traces:" + label]["unreported_rejections"] = len(still) - max_report
        return verdicts[:len(plain)]

    # ---- verdicts ------------------------------------------------------------------------
    def known_hit(self, kf):
        self.known_hits[kf["id"]] = self.known_hits.get(kf["id"], 0) + 1

    def violation(self, what, bundle):
        d = os.path.join(EVID, "replays", self.pid)
        os.makedirs(d, exist_ok=True)
        p = os.path.join(d, "%d.json" % len(self.violations))
        with open(p, "w") as f:
            json.dump({"property": self.pid, "what": what, "bundle": bundle}, f, indent=1, default=str)
        self.violations.append((what, p))
        print("VIOLATION property=%s replay=%s" % (self.pid, p))
        print("  " + what[:600])
        sys.stdout.flush()

    def sample(self, obj):
        if len(self.samples) < 12:
            self.samples.append(obj)

    def finish(self, level_text="", extra=None):
        for kf in self.known:
            if kf.get("status") == "open" and self.known_hits.get(kf["id"]):
                print("KNOWN-FINDING: property=%s %s (seen %d times in this run)" % (self.pid, kf["what"], self.known_hits[kf["id"]]))
        cov = {"states": max(self.states, 0), "transitions": max(self.transitions, 0),
               "traces_validated_against_impl": self.traces, "events_validated": self.events,
               "evaluations": self.traces, "distinct_nontrivial": self.nontrivial,
               "rule": "a trace/behaviour is one seeded or TLC-enumerated history executed on the real class; "
                       "non-trivial = it contains at least one warning, drift, refusal or other non-default outcome",
               "samples": self.samples or ["(none)"], "parts": self.parts, "sabotage": self.sabotage,
               "known_findings_seen": self.known_hits, "exhaustive": False}
        if extra:
            cov.update(extra)
        ev = {"property_id": self.pid, "tier": self.tier, "seed": self.seed, "level": "model_checking",
              "coverage": cov, "assumptions": self.assumptions, "wall_s": round(time.time() - self.t0, 2),
              "violations": len(self.violations)}
        os.makedirs(EVID, exist_ok=True)
        with open(os.path.join(EVID, self.pid + ".json"), "w") as f:
            json.dump(ev, f, indent=1, default=str)
        return 1 if self.violations else 0


def _default_nontrivial(t):
    for e in t["ev"]:
        if e.get("state", "None") != "None" or e.get("raised", "None") != "None":
            return True
    return False


class Neighbour:
    """a second, unrelated detector of the same class that lives next to the one under observation and is fed its own pseudo-random stream
    (a fixed linear congruential sequence: no global random state is touched).  What ONE detector reports is a function of what IT was given."""

    def __init__(self, det, feed, salt=0):
        self.det, self.feed, self.x = det, feed, 12345 + 7919 * salt

    def step(self):
        self.x = (1103515245 * self.x + 12345) % (2 ** 31)
        try:
            self.feed(self.det, (self.x >> 12) / float(2 ** 19))          # a value in [0, 1)
            if (self.x >> 8) % 89 == 0:
                self.det.reset()
        except Exception:  # noqa - the neighbour is not under observation
            pass
