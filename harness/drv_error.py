"""Drivers for the error-based concept drift detectors (DDM, EDDM, STEPD): run the real classes from
/repo's working tree along an outcome sequence and record one event per public update call."""
import itertools
import random

import numpy as np
import scipy.stats

from .core import num, st, recs


def make(kind, p):
    from menelaus.concept_drift import DDM, EDDM, STEPD
    if kind == "DDM":
        return DDM(n_threshold=p["n_threshold"], warning_scale=p["warning_scale"], drift_scale=p["drift_scale"])
    if kind == "EDDM":
        return EDDM(n_threshold=p["n_threshold"], warning_thresh=p["warning_thresh"], drift_thresh=p["drift_thresh"])
    if kind == "STEPD":
        return STEPD(window_size=p["window_size"], alpha_warning=p["alpha_warning"], alpha_drift=p["alpha_drift"])
    raise KeyError(kind)


_CRIT = {}


def _crit(alpha):
    """the smallest T (to double precision) for which 1 - Phi(T) < alpha"""
    if alpha not in _CRIT:
        lo, hi = -40.0, 40.0                      # 1 - Phi(-40) = 1 >= alpha,  1 - Phi(40) = 0 < alpha  (for any alpha in (0, 1])
        if not (1 - scipy.stats.norm.cdf(hi) < alpha):
            _CRIT[alpha] = float("inf")
        else:
            for _ in range(200):
                mid = (lo + hi) / 2
                if 1 - scipy.stats.norm.cdf(mid) < alpha:
                    hi = mid
                else:
                    lo = mid
            _CRIT[alpha] = (lo + hi) / 2
    return _CRIT[alpha]


def spec_cfg(kind, p):
    """constructor parameters -> the cfg record of the TLA+ module"""
    if kind == "DDM":
        return {"nthr": int(p["n_threshold"]), "ws": num(p["warning_scale"]), "ds": num(p["drift_scale"])}
    if kind == "EDDM":
        return {"nthr": int(p["n_threshold"]), "wt": num(p["warning_thresh"]), "dt": num(p["drift_thresh"])}
    if kind == "STEPD":
        # trusted table: the critical value of the one-sided test "p-value = 1 - Phi(T) below alpha" (scipy's normal distribution
        # function, inverted by bisection in double precision so that levels near and below machine epsilon are exact as well)
        return {"w": int(p["window_size"]), "zw": num(_crit(p["alpha_warning"])), "zd": num(_crit(p["alpha_drift"]))}
    raise KeyError(kind)


def default_enc(c, t):
    """error bit -> (y_true, y_pred)"""
    return (1, 0) if c else (1, 1)


def project(kind, det, c):
    e = {"op": "update", "c": int(c), "total": int(det.total_samples), "since": int(det.samples_since_reset),
         "state": st(det.drift_state), "recs": recs(list(det.retraining_recs))}
    if kind == "STEPD":
        e["recent"] = num(det.recent_accuracy())
        e["past"] = num(det.past_accuracy())
        e["overall"] = num(det.overall_accuracy())
    return e


def run(kind, p, seq, enc=default_enc, X=None, resets=(), bads=(), fold=False):
    """resets: positions before which the user calls reset(); bads: positions before which a malformed call
    (labels with several observations) is made and must be refused"""
    det = make(kind, p)
    # a second, unrelated detector of the same class lives next to the one under observation and sees its own stream (another parameter set,
    # outcomes from a fixed pseudo-random sequence): what ONE detector reports is a function of what IT was given
    other_p = dict(p)
    for key in other_p:
        if key in ("n_threshold", "window_size"):
            other_p[key] = int(other_p[key]) + 2
    other = make(kind, other_p)
    lcg = 12345 + 7 * len(seq)
    ev = []
    zeros = 0          # correct predictions in a row since the last error / reset / refused call / reported drift (fold=True, STEPD: quiet stretches are folded)
    for t, c in enumerate(seq):
        lcg = (1103515245 * lcg + 12345) % (2 ** 31)
        other.update(1, 1 if (lcg >> 16) % 3 else 0)
        if (lcg >> 8) % 97 == 0:
            other.reset()
        if t in resets:
            det.reset()
            e = project(kind, det, 0)
            e["op"] = "reset"
            ev.append(e)
            zeros = 0
        if t in bads:
            try:
                det.update([1, 0], [1, 1])
                e = project(kind, det, 0)
                e["op"] = "bad-accepted"
            except ValueError:
                e = project(kind, det, 0)
                e["op"] = "bad"
            ev.append(e)
            zeros = 0
        yt, yp = enc(c, t)
        if X is None:
            det.update(yt, yp)
        else:
            det.update(yt, yp, X(t))
        e = project(kind, det, c)
        if fold and kind == "STEPD" and c == 0 and zeros >= int(p["window_size"]) and e["state"] == "None" and e["recs"] == [-1, -1]:
            # (only observations that ARE what a quiet step prescribes are folded; anything else is logged as the update it is)
            if ev and ev[-1]["op"] == "quiet":
                e["n"] = ev[-1]["n"] + 1
                ev[-1] = e
            else:
                e["n"] = 1
                ev.append(e)
            e["op"] = "quiet"
        else:
            ev.append(e)
        zeros = zeros + 1 if (c == 0 and e["state"] != "drift") else 0
    return {"cfg": spec_cfg(kind, p), "ev": ev, "kind": kind, "params": p, "seq": list(map(int, seq)),
            "resets": list(resets), "bads": list(bads)}


def all_sequences(n):
    return itertools.product((0, 1), repeat=n)


def piecewise(rng, n, lo=(0.02, 0.3), hi=(0.3, 0.9), seg=(20, 200)):
    """piecewise-stationary error sequence with several regime changes"""
    out = []
    while len(out) < n:
        p = rng.uniform(*(lo if rng.random() < 0.5 else hi))
        k = rng.randint(*seg)
        out += [1 if rng.random() < p else 0 for _ in range(k)]
    return out[:n]


def small_params(kind):
    if kind == "DDM":
        return [{"n_threshold": n, "warning_scale": w, "drift_scale": d}
                for n in (0, 1, 2, 3, 5) for (w, d) in ((2, 3), (0.5, 1.0), (1.5, 2.5), (3, 2), (1.0, 0.25))]   # (warning above drift is legal too)
    if kind == "EDDM":
        return [{"n_threshold": n, "warning_thresh": w, "drift_thresh": d}
                for n in (0, 1, 2, 3) for (w, d) in ((0.95, 0.9), (0.99, 0.6), (0.8, 0.5), (0.6, 0.9), (1.0, 0.9), (1.0, 1.0))]     # (a threshold of exactly 1: a new maximum itself is in the zone)
    if kind == "STEPD":
        return [{"window_size": n, "alpha_warning": w, "alpha_drift": d}
                for n in (1, 2, 3) for (w, d) in ((0.05, 0.003), (0.4, 0.3), (0.3, 0.05), (0.05, 0.3), (0.7, 0.55))]


def random_params(kind, rng):
    if kind == "DDM":
        w = rng.choice([1.0, 1.5, 2, 2.0, 2.5])
        return {"n_threshold": rng.choice([1, 5, 10, 30, 30, 50]), "warning_scale": w,
                "drift_scale": w + rng.choice([0.5, 1, 1.0, 1.5, -0.5, -0.75])}
    if kind == "EDDM":
        d = rng.choice([0.5, 0.7, 0.8, 0.9, 0.9])
        return {"n_threshold": rng.choice([1, 3, 10, 30, 30]), "drift_thresh": d,
                "warning_thresh": rng.choice([1.0, min(0.999, d + rng.choice([0.03, 0.05, 0.05, 0.09, -0.1]))]) if rng.random() < 0.15 else min(0.999, d + rng.choice([0.03, 0.05, 0.05, 0.09, -0.1]))}
    if kind == "STEPD":
        d = rng.choice([0.001, 0.003, 0.003, 0.01, 0.05])
        if rng.random() < 0.12:      # a drift level at / below machine epsilon: the p-value must be exactly 0 (T beyond ~8.3)
            return {"window_size": rng.choice([10, 30]), "alpha_drift": rng.choice([1e-17, 1e-15, 1e-12, 0.0, 0]), "alpha_warning": rng.choice([0.05, 1e-6, 0.0])}      # (a level of 0 switches that alarm off: no p-value is BELOW 0)
        if rng.random() < 0.2:      # significance levels above one half are legal: then every decrease of accuracy alarms, and ONLY a decrease
            return {"window_size": rng.choice([5, 10, 30]), "alpha_drift": rng.choice([0.05, 0.52, 0.6]), "alpha_warning": rng.choice([0.55, 0.65, 0.7])}
        return {"window_size": rng.choice([1, 5, 10, 30, 30]), "alpha_drift": d,
                "alpha_warning": min(0.5, d * rng.choice([2, 10, 16.7, 5, 0.3]))}


def sabotage(trace, rng):
    """change one logged field of one event; the trace specification must reject exactly there"""
    ev = trace["ev"]
    if len(ev) < 2:
        return None
    k = rng.choice([i for i, x in enumerate(ev) if x["op"] == "update"])
    e = ev[k]
    which = rng.choice(["since", "total", "state", "recs"])
    if which == "since":
        e["since"] += 1
    elif which == "total":
        e["total"] += 1
    elif which == "state":
        e["state"] = {"None": "warning", "warning": "drift", "drift": "None"}[e["state"]]
    else:
        e["recs"] = [e["recs"][0] + 1, e["recs"][1]]
    return trace, k + 1, which
