"""Driver for the drift injectors (C20): one event per call, ndarray and DataFrame inputs."""
import copy

import numpy as np
import pandas as pd

from .core import num


NOTE = "note"      # a free-text column some data sets carry next to the numeric ones; it is never a target and must come back untouched


def mat(a):
    if isinstance(a, pd.DataFrame) and NOTE in a.columns:
        a = a.drop(columns=NOTE)
    a = np.asarray(a, dtype=float)
    if a.ndim == 1:
        a = a.reshape(-1, 1)
    return [[num(v) for v in row] for row in a]


def container(x):
    return "DataFrame" if isinstance(x, pd.DataFrame) else ("ndarray" if isinstance(x, np.ndarray) else type(x).__name__)


def _note_of(x):
    return [str(v) for v in x[NOTE]] if isinstance(x, pd.DataFrame) and NOTE in x.columns else None


def labels(x):
    return [str(c) for c in x.columns] if isinstance(x, pd.DataFrame) else []


def base_event(op, data, out, before):
    tout = container(out)
    n_in, n_out = _note_of(data), _note_of(out)
    if n_in is not None and op not in ("resample", "cover") and n_in != n_out:
        tout += " whose text column changed"         # (resampling / sampling moves whole rows, text included)
    return {"op": op, "in": before, "inafter": mat(data), "out": mat(out), "tin": container(data), "tout": tout,
            "colsin": labels(data), "colsout": labels(out), "colsexp": [],
            "from": 0, "to": 0, "c1": 1, "c2": 1, "k1": "0.0", "k2": "0.0", "knew": "0.0", "factor": "0.0", "alpha": "0.0",
            "x0": "0.0", "size": 0, "keys": [], "n": "0.0", "counts": [], "probs": [], "zero": []}


def make_data(rng, n, ncols, frame, classes=(0.0, 1.0, 2.0), style=None):
    if classes == (0.0, 1.0, 2.0) and rng.random() < 0.3:
        # class labels that are large and close to each other (period codes, ids): distinct labels are distinct classes
        # ... or fractional codes that are not dyadic (scores / prices used as class codes): a label is a value, not a quantity to compute with
        classes = rng.choice([(202401.0, 202402.0, 202403.0), (1000000.0, 1000001.0, 1000002.0), (0.1, 0.7, 0.3), (1.1, 2.2, 3.3)])
    a = np.array([[float(rng.randint(-5, 9)) for _ in range(ncols - 1)] + [rng.choice(classes)] for _ in range(n)], dtype=float).reshape(n, ncols)
    names = ["f%d" % i for i in range(ncols - 1)] + ["y"]
    if frame:
        # how the columns of a DataFrame may be labelled: strings, pandas' default RangeIndex, a RangeIndex that does not start at 0 or has a
        # step, plain integer labels in arbitrary order - the column ARGUMENT is always a label, never a position
        style = style or rng.choice(["str", "str", "range0", "range1", "rangestep", "ints", "mixed", "dup"])
        if style == "mixed":
            # a mixed-type frame: an integer-typed feature column, float columns, and a text column at the end
            df = pd.DataFrame(a, columns=names)
            df[names[0]] = df[names[0]].astype("int64")
            df[NOTE] = ["r%d" % i for i in range(n)]
            return _row_labels(rng, df), names
        if style == "dup" and ncols >= 4:
            # two feature columns share one label (frames glued together with pd.concat(axis=1)); the columns an injector is pointed at are unique
            df = pd.DataFrame(a, columns=[names[0]] + ["s"] * (ncols - 3) + [names[-2], names[-1]])
            return _row_labels(rng, df), list(df.columns)
        if style == "range0":
            df = pd.DataFrame(a)
        elif style == "range1":
            df = pd.DataFrame(a, columns=range(1, ncols + 1))
        elif style == "rangestep":
            df = pd.DataFrame(a, columns=range(3, 3 + 2 * ncols, 2))
        elif style == "ints":
            lab = list(range(ncols))
            rng.shuffle(lab)
            df = pd.DataFrame(a, columns=[10 * v + 7 for v in lab])
        else:
            df = pd.DataFrame(a, columns=names)
        return _row_labels(rng, df), list(df.columns)
    return a, names


def _row_labels(rng, df):
    """how the ROWS of a DataFrame may be labelled: pandas' default 0..n-1, a slice of a larger frame (labels start elsewhere), a shuffled frame, text
    labels, labels that repeat.  Rows are positions (the window arguments are positions); nothing about an injection depends on their labels"""
    n = len(df)
    style = rng.choice(["default", "default", "offset", "shuffled", "text", "repeated"])
    if style == "offset":
        df.index = range(100, 100 + n)
    elif style == "shuffled":
        lab = list(range(n))
        rng.shuffle(lab)
        df.index = lab
    elif style == "text":
        df.index = ["row%d" % (3 * i) for i in range(n)]
    elif style == "repeated":
        df.index = [i % 3 for i in range(n)]
    return df


def colarg(frame, names, pos):
    """column argument as the API wants it: a name for DataFrames, a 0-based index for arrays (pos is 1-based)"""
    return names[pos - 1] if frame else pos - 1


class _Pool:
    """injector objects of a session: the SAME object serves successive calls (container types may alternate)"""

    def __init__(self, I, reuse):
        self.I, self.reuse, self.objs = I, reuse, {}

    def __getattr__(self, name):
        cls = getattr(self.__dict__["I"], name)
        if not self.__dict__["reuse"]:
            return cls
        objs = self.__dict__["objs"]
        return lambda: objs.setdefault(name, cls())


def call(rng, kind, n, ncols, frame, window=None, seed=0, pool=None, style=None, target=None):
    from menelaus import injection as I0
    I = pool if pool is not None else _Pool(I0, False)
    data, names = make_data(rng, n, ncols, frame, style=style)
    before = mat(data)
    f, t = window if window is not None else sorted((rng.randint(0, n), rng.randint(0, n)))
    np.random.seed(seed % (2 ** 32))
    ycol = ncols

    def upos():
        """a column position whose label is unique in the frame (an injector is pointed at one column; the OTHER columns may share labels)"""
        ok = [k for k in range(1, ncols + 1) if list(map(str, names)).count(str(names[k - 1])) == 1] if frame else list(range(1, ncols + 1))
        if target in ok:
            return target                 # (the caller of this driver asks for a particular column, e.g. the integer-typed one of a mixed frame)
        return rng.choice(ok)
    if kind == "swap":
        c1, c2 = upos(), upos()
        out = I.FeatureSwapInjector()(data, f, t, colarg(frame, names, c1), colarg(frame, names, c2))
        e = base_event(kind, data, out, before)
        e.update(c1=c1, c2=c2)
    elif kind == "labelswap":
        pres = sorted(set(np.asarray(data.drop(columns=NOTE) if isinstance(data, pd.DataFrame) and NOTE in data.columns else data, dtype=float)[:, ycol - 1].tolist()))
        k1, k2 = rng.choice(pres + [pres[-1] + 3.0]), rng.choice(pres)          # (sometimes a class that does not occur)
        if len(pres) >= 2 and (t <= f or rng.random() < 0.5):
            k1, k2 = rng.sample(pres, 2)                                        # two different classes that both occur (always so for an empty window: it must stay a no-op)
        out = I.LabelSwapInjector()(data, f, t, colarg(frame, names, ycol), k1, k2)
        e = base_event(kind, data, out, before)
        e.update(c1=ycol, k1=num(k1), k2=num(k2))
    elif kind == "labeljoin":
        pres = sorted(set(np.asarray(data.drop(columns=NOTE) if isinstance(data, pd.DataFrame) and NOTE in data.columns else data, dtype=float)[:, ycol - 1].tolist()))
        k1, k2, kn = rng.choice(pres), rng.choice(pres), rng.choice([pres[0], pres[-1], pres[-1] + 7.0])
        out = I.LabelJoinInjector()(data, f, t, colarg(frame, names, ycol), k1, k2, kn)
        e = base_event(kind, data, out, before)
        e.update(c1=ycol, k1=num(k1), k2=num(k2), knew=num(kn))
    elif kind == "shift":
        c1 = upos()
        factor, alpha = rng.choice([0.5, 1.0, -2.0, 0.0]), rng.choice([0.001, 0.5, 0.0])
        out = I.FeatureShiftInjector()(data, f, t, colarg(frame, names, c1), factor, alpha=alpha)
        e = base_event(kind, data, out, before)
        e.update(c1=c1, factor=num(factor), alpha=num(alpha))
    elif kind == "brownian":
        c1 = upos()
        x0 = rng.choice([0.0, 1.5, -3.0])
        out = I.BrownianNoiseInjector()(data, f, t, colarg(frame, names, c1), x0, random_state=seed % 1000)
        e = base_event(kind, data, out, before)
        e.update(c1=c1, x0=num(x0))
    elif kind in ("resample", "dirichlet"):
        present = sorted(set(np.asarray(data)[:, ycol - 1].tolist()))
        zero = []
        if kind == "resample":
            r = rng.random()
            if r < 0.4:
                probs = {present[0]: rng.choice([0.2, 0.5, 0.9])}
            elif r < 0.7 or len(present) < 3:
                probs = {k: 1.0 / len(present) for k in present}
            else:       # a class explicitly given probability 0 (it must then never be drawn), another one left unspecified
                probs = {present[0]: 0.0, present[1]: rng.choice([0.25, 0.5])}
                zero = [num(present[0])]
            arg = dict(probs)
            out = I.LabelProbabilityInjector()(data, f, t, colarg(frame, names, ycol), arg)
        else:
            out = I.LabelDirichletInjector()(data, f, t, colarg(frame, names, ycol), {k: rng.choice([1, 3, 10]) for k in present})
        e = base_event("resample", data, out, before)
        if kind == "resample" and zero:
            # the claim only applies when the requested distribution can be honoured: every class that is to receive
            # positive probability occurs in the window (otherwise its mass is documented to be spread over all rows)
            win = set(np.asarray(data)[f:t, ycol - 1].tolist())
            if not all(k in win for k in present if num(k) not in zero):
                zero = []
        e.update(c1=ycol, zero=zero if kind == "resample" else [])
    elif kind == "cover":
        size = rng.randint(0, n) if rng.random() < 0.7 else rng.randint(0, 3)     # (fewer rows requested than there are groups: an empty sample, as documented by n = size // groups)
        vals = np.asarray(data)[:, ycol - 1]
        keys = sorted(set(vals.tolist()))
        counts = [int((vals == k).sum()) for k in keys]
        size = min(size, min(counts) * len(keys))
        out = I.FeatureCoverInjector()(data, colarg(frame, names, ycol), size, random_state=seed % 1000)
        e = base_event(kind, data, out, before)
        e.update(c1=ycol, size=size, keys=[num(k) for k in keys], colsexp=[c for c in labels(data) if c != str(names[ycol - 1])])
    else:
        raise KeyError(kind)
    e.update({"from": f, "to": t})
    return e


def session(rng, kind, ncalls, seed):
    """several calls on ONE injector object, alternating ndarray / DataFrame inputs of different shapes"""
    from menelaus import injection as I0
    pool = _Pool(I0, True)
    ev, spec = [], []
    frame = rng.random() < 0.5
    for c in range(ncalls):
        n, nc = rng.randint(4, 12), rng.randint(2, 4)
        st = rng.getstate()
        ev.append(call(rng, kind, n, nc, frame, None, seed + c, pool=pool))
        spec.append([n, nc, frame, seed + c])
        frame = not frame if rng.random() < 0.8 else frame
    return {"cfg": {}, "ev": ev, "mode": "session", "kind": kind, "seed": seed, "ncalls": ncalls}


def freq_trace(rng, frame, reps, seed, dirichlet=False):
    """many resampling calls with a fully specified distribution over classes that are all present in the window:
    the aggregate class frequencies of the output windows must follow the requested probabilities"""
    from menelaus import injection as I
    import random
    rng = random.Random(seed)         # the trace is a function of (frame, reps, seed, dirichlet): replays are exact
    n, ncols = 40, 3
    probs = rng.choice([{0.0: 0.7, 1.0: 0.2, 2.0: 0.1}, {0.0: 0.1, 1.0: 0.1, 2.0: 0.8}, {0.0: 1 / 3, 1.0: 1 / 3, 2.0: 1 / 3}])
    counts = {k: 0 for k in probs}
    total = 0
    ev = []
    # Dirichlet injector: concentration so large that the drawn probabilities equal alpha_k / sum(alpha) to 1e-3; the keys of the
    # alpha dictionary come in an arbitrary (shuffled) insertion order
    order = list(probs)
    rng.shuffle(order)
    alpha = {k: probs[k] * 1e6 for k in order}
    for r in range(reps):
        data, names = make_data(rng, n, ncols, frame)
        a = np.asarray(data)
        f, t = 5, 35
        if set(a[f:t, -1].tolist()) != set(probs):
            continue
        before = mat(data)
        np.random.seed((seed + r) % (2 ** 32))
        if dirichlet:
            out = I.LabelDirichletInjector()(data, f, t, names[-1] if frame else ncols - 1, dict(alpha))
        else:
            out = I.LabelProbabilityInjector()(data, f, t, names[-1] if frame else ncols - 1, dict(probs))
        o = np.asarray(out)
        for k in probs:
            counts[k] += int((o[f:t, -1] == k).sum())
        total += t - f
        if r < 3:
            e = base_event("resample", data, out, before)
            e.update({"from": f, "to": t, "c1": ncols})
            ev.append(e)
    ks = sorted(probs)
    e = {k: v for k, v in (ev[0] if ev else base_event("freq", np.zeros((1, 1)), np.zeros((1, 1)), mat(np.zeros((1, 1))))).items()}
    e.update(op="freq", n=num(total), counts=[num(counts[k]) for k in ks], probs=[num(probs[k]) for k in ks])
    ev.append(e)
    return {"cfg": {}, "ev": ev, "mode": "freq", "frame": frame, "reps": reps, "seed": seed, "dirichlet": dirichlet}


def sabotage(trace, rng):
    ks = [k for k, e in enumerate(trace["ev"]) if e["op"] in ("swap", "labelswap", "labeljoin", "shift", "brownian", "resample") and e["out"]]
    if not ks:
        return None
    k = rng.choice(ks)
    e = trace["ev"][k]
    r = rng.randrange(len(e["out"]))
    c = rng.randrange(len(e["out"][r]))
    if e["op"] in ("brownian", "resample"):
        # must violate the frame: perturb a cell outside the window if there is one
        outside = [i for i in range(len(e["out"])) if not (e["from"] <= i < e["to"])]
        if not outside:
            return None
        r = rng.choice(outside)
    e["out"][r][c] = num(float(e["out"][r][c]) + 13.0)
    return trace, k + 1, "output cell"
