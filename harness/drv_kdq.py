"""Drivers for KDQTreePartitioner (C08) and the kdq-tree detectors (C09)."""
import numpy as np

from .core import num, st

IDS = {"build": 1, "a": 2, "b": 3}
IDN = {v: k for k, v in IDS.items()}


def walk(node, scale=1):
    """public tree -> the nested record the specification uses (scale: the specification's unit in units of the data handed to the partitioner)"""
    if node is None:          # an internal node with a missing child: rendered as an impossible leaf so that the comparison fails
        return {"leaf": True, "cnt": [-7, -7, -7]}
    c = node.num_samples_in_compared_subtrees
    cnt = [int(c[k]) if k in c else -1 for k in ("build", "a", "b")]
    if node.axis is None:
        return {"leaf": True, "cnt": cnt}
    m2 = 2 * scale * float(node.midpoint_at_axis)
    if m2 != round(m2):
        raise AssertionError("driver expects integer data (midpoint %r)" % node.midpoint_at_axis)
    return {"leaf": False, "cnt": cnt, "axis": int(node.axis), "mid2": int(round(m2)),
            "lo": walk(node.left, scale), "hi": walk(node.right, scale)}


def plotly_rows(part, id1, id2, maxd=0, named=False, d=0):
    """maxd: max_depth argument (0 = not given); named: column names are passed and must label the splits"""
    kw = {}
    if maxd:
        kw["max_depth"] = maxd
    if named:
        kw["input_cols"] = ["col%d" % i for i in range(d)]
    df = part.to_plotly_dataframe(tree_id1=IDN[id1], tree_id2=IDN[id2] if id2 else None, **kw)
    return rows_of(df, kw.get("input_cols"), bool(id2))


def _counts(x):
    """leaf counts as the partitioner reports them; [-1] when it reports none although there are points (a mismatch for the specification)"""
    return [int(v) for v in x] if x is not None else [-1]


def rows_of(df, names, has_id2):
    """the rows of a plotly view in the specification's vocabulary; names: the column labels the splits must carry (None: 'ax <i>')"""
    pos = {}
    rows = []
    for k, r in enumerate(df.to_dict("records"), start=1):
        pos[r["idx"]] = k
        name = r["name"]
        if name == "kdqTree":
            side, paxis = "root", -1
        else:
            parts = name.split()
            if names is not None:
                lab = [str(c) for c in names]
                if parts[0] not in lab:
                    raise AssertionError("split not labelled with a column name: %r (columns %r)" % (name, lab))
                paxis, op = lab.index(parts[0]), parts[1]
            else:
                paxis, op = int(parts[1]), parts[2]
            side = "le" if op == "<=" else "gt"
        rows.append({"parent": pos.get(r["parent_idx"], 0) if r["parent_idx"] is not None else 0,
                     "depth": int(r["depth"]), "cell": int(r["cell_count"]), "side": side, "paxis": paxis,
                     "diff": int(r["count_diff"]) if has_id2 else 0})
    kss = [num(v) for v in df["kss"]] if has_id2 else []
    return rows, kss


def detector_view(det, take):
    """the detector's own to_plotly_dataframe() (reference vs test counts), in the specification's vocabulary; [] when not taken"""
    if not take or getattr(det, "_kdqtree", True) is None:
        return False, []
    cols = getattr(det, "_input_cols", None)
    if cols is not None and len(set(map(str, cols))) < len(cols):
        return False, []          # columns that share one label cannot name a split axis: nothing to compare the labels with
    df = det.to_plotly_dataframe()
    rows, _ = rows_of(df, list(cols) if cols is not None else None, True)
    return True, rows


def session(cfgp, script):
    """script: ("build", data) | ("fill", data, id, reset) | ("reset", value, id) | ("kl", id1, id2) | ("plotly", id1, id2)"""
    from menelaus.partitioners import KDQTreePartitioner
    part = KDQTreePartitioner(count_ubound=cfgp["ub"], cutpoint_proportion_lbound=cfgp["lbnum"] / cfgp["lbden"])
    ev = []
    # "halves" (only with cutpoint_proportion_lbound = 0, where the tree is exactly scale-equivariant): the partitioner receives every coordinate
    # divided by two - a build sample on the even lattice then arrives as an INTEGER-typed array, later samples carry fractions.  Where a point
    # belongs is a matter of its value, whatever the type of the sample the tree was built from
    hv = 2 if cfgp.get("halves") else 1

    def arr(rows, width):
        a = np.array(rows, dtype=float).reshape(-1, width)
        if hv == 1:
            dt = cfgp.get("dtype")       # whole-number samples handed over in the narrow integer type they were read in (pixels, 16-bit counts, 32-bit timestamps)
            if dt and a.size and bool(np.all(a == np.round(a))) and np.iinfo(dt).min <= a.min() and a.max() <= np.iinfo(dt).max:
                return a.astype(dt)
            return a
        a = a / 2
        return a.astype(np.int64) if a.size and bool(np.all(a == np.round(a))) else a
    for s in script:
        op = s[0]
        if op == "build":
            part.build(arr(s[1], len(s[1][0])))
            ev.append({"op": "build", "data": s[1], "tree": walk(part.node, hv), "counts": _counts(part.leaf_counts("build"))})
        elif op == "fill":
            d = arr(s[1], len(script[0][1][0]))
            part.fill(d, tree_id=IDN[s[2]], reset=s[3])
            ev.append({"op": "fill", "data": s[1], "id": s[2], "reset": bool(s[3]), "tree": walk(part.node, hv),
                       "counts": _counts(part.leaf_counts(IDN[s[2]]))})
        elif op == "reset":
            part.reset(value=s[1], tree_id=IDN[s[2]])
            ev.append({"op": "reset", "value": int(s[1]), "id": s[2], "tree": walk(part.node, hv)})
        elif op == "kl":
            ev.append({"op": "kl", "id1": s[1], "id2": s[2], "kl": num(part.kl_distance(IDN[s[1]], IDN[s[2]]))})
        elif op == "plotly":
            maxd, named = (s[3], s[4]) if len(s) > 3 else (0, False)
            rows, kss = plotly_rows(part, s[1], s[2], maxd, named, len(script[0][1][0]))
            ev.append({"op": "plotly", "id1": s[1], "id2": s[2], "rows": rows, "kss": kss, "maxd": int(maxd)})
    return {"cfg": cfgp, "ev": ev, "script": [list(x) for x in script]}


def refill_trace(rng):
    """real-valued build data (a decimal grid, or continuous values): build, file the same rows under another id, compare"""
    from menelaus.partitioners import KDQTreePartitioner
    d = rng.randint(1, 3)
    n = rng.randint(5, 120)
    style = rng.choice(["tenths", "tenths", "hundredths", "continuous", "thirds"])
    if style == "tenths":
        data = [[rng.randint(0, 30) / 10 for _ in range(d)] for _ in range(n)]
    elif style == "hundredths":
        data = [[rng.randint(0, 200) / 100 for _ in range(d)] for _ in range(n)]
    elif style == "thirds":
        data = [[rng.randint(0, 12) / 3 for _ in range(d)] for _ in range(n)]
    else:
        data = [[rng.uniform(-5, 5) for _ in range(d)] for _ in range(n)]
    cfgp = {"ub": rng.choice([1, 2, 3, 8]), "lbnum": rng.choice([0, 1]), "lbden": rng.choice([4, 8])}
    return refill_from(cfgp, data)


def longdouble_refill(rng):
    """extended-precision samples (np.longdouble; 64-bit mantissa on x86): quarter steps plus multiples of 2^-62, so that the midpoint of a cell
    is typically NOT a float64 value and points sit between it and its float64 rounding.  Rows are kept as [quarters, offset] pairs (exact in JSON)."""
    d = rng.randint(1, 2)
    n = rng.randint(4, 40)
    top = 4          # values in [0, 1 + 2^-59]: neighbouring grid values are at least two units in the last place apart, every midpoint is a longdouble
    data = [[[rng.randint(0, top), rng.randint(-8, 8)] for _ in range(d)] for _ in range(n)]
    data[0] = [[0, 0] for _ in range(d)]
    data[1] = [[top, 8] for _ in range(d)]          # range [0, top/4 + 2^-59]: midpoint top/8 + 2^-60
    for i in range(2, min(n, 6)):
        data[i] = [[top // 2, rng.choice([1, 2, 3, 5, 6, 7])] for _ in range(d)]
    cfgp = {"ub": rng.choice([1, 2, 3]), "lbnum": rng.choice([0, 1]), "lbden": rng.choice([8, 16]), "ld": True}
    return refill_from(cfgp, data)


def adjacent_refill(rng):
    """float64 samples holding values ONE unit in the last place apart (a + (b - a) / 2 then rounds to a or to b): build still ends, files
    every point in one leaf and the same rows filed again reproduce the counts.  Rows are kept as [base, ulps] pairs (finding F26)."""
    d = rng.randint(1, 2)
    bases = [rng.choice([1.0, 0.1, 3.0, -2.5, 1e6, 1e-3]) for _ in range(d)]
    n = rng.randint(2, 12)
    data = [[[bases[c], rng.randint(0, 3)] for c in range(d)] for _ in range(n)]
    data[0] = [[bases[c], 1] for c in range(d)]
    data[1] = [[bases[c], 2] for c in range(d)]
    cfgp = {"ub": rng.choice([1, 1, 2]), "lbnum": 0, "lbden": 4, "ulps": True}
    return refill_from(cfgp, data)


def refill_from(cfgp, data):
    from menelaus.partitioners import KDQTreePartitioner
    part = KDQTreePartitioner(count_ubound=cfgp["ub"], cutpoint_proportion_lbound=cfgp["lbnum"] / cfgp["lbden"])
    if cfgp.get("ld"):
        LD = np.longdouble
        a = np.array([[LD(q) / LD(4) + LD(o) * LD(2) ** -62 for q, o in row] for row in data], dtype=LD)
    elif cfgp.get("ulps"):
        def up(v, k):
            for _ in range(k):
                v = np.nextafter(v, np.inf)
            return v
        a = np.array([[up(np.float64(b), k) for b, k in row] for row in data], dtype=float)
    else:
        a = np.array(data, dtype=float)
    part.build(a)
    part.fill(a.copy(), tree_id="a", reset=True)
    e = {"op": "refill", "cb": _counts(part.leaf_counts("build")), "cf": _counts(part.leaf_counts("a")),
         "n": len(data), "kl": num(part.kl_distance("build", "a"))}
    return {"cfg": cfgp, "ev": [e], "script": [["refill", data]], "data": data}


def big_refill(seed, n, d, ub):
    """the same relation on a sample of a size real reference sets have (tens of thousands of rows up to a few hundred thousand), drawn from `seed`"""
    rs = np.random.RandomState(seed)
    a = np.round(rs.normal(0, 1, size=(n, d)) * rs.choice([1.0, 100.0]), 3)
    t = refill_from({"ub": ub, "lbnum": 1, "lbden": 1024}, a)
    t["data"], t["script"] = {"seed": seed, "n": n, "d": d}, [["refill", "big", seed, n, d]]
    return t


def random_points(rng, n, d, style):
    if style == "grid":
        return [[rng.randint(0, 7) for _ in range(d)] for _ in range(n)]
    if style == "dups":
        base = [[rng.randint(-20, 20) for _ in range(d)] for _ in range(max(1, n // 4))]
        return [list(rng.choice(base)) for _ in range(n)]
    if style == "flag":       # a binary / constant column next to wider ones (cells that are constant on their split axis)
        return [[(rng.randint(0, 1) if a == 0 else (5 if a == 1 and d > 2 else rng.randint(-300, 300))) for a in range(d)] for _ in range(n)]
    if style == "clusters":
        cs = [[rng.randint(-200, 200) for _ in range(d)] for _ in range(3)]
        return [[c + rng.randint(-15, 15) for c in rng.choice(cs)] for _ in range(n)]
    return [[rng.randint(-1000, 1000) for _ in range(d)] for _ in range(n)]


def random_session(rng, big=False):
    d = rng.randint(1, 4)
    n = rng.randint(1, 60) if not big else rng.randint(50, 400)
    style = rng.choice(["grid", "dups", "clusters", "wide", "flag"])
    cfgp = {"ub": rng.choice([1, 2, 3, 5, 8, 20]), "lbnum": rng.choice([0, 0, 1, 1]), "lbden": rng.choice([4, 8, 2])}
    data = random_points(rng, n, d, style)
    script = [("build", data), ("plotly", 1, 0)]
    if rng.random() < 0.3:
        script.append(("plotly", 1, rng.choice([2, 3]), rng.choice([0, 2]), rng.random() < 0.5))    # compared with an id nothing was filled under yet
    filled = set()
    for _ in range(rng.randint(2, 6)):
        r = rng.random()
        if r < 0.6:
            m = rng.choice([0, 1, 2, 5, 30]) if not big else rng.randint(0, 200)
            pts = random_points(rng, m, d, rng.choice([style, "wide"]))
            if rng.random() < 0.2:
                pts = data
            i = rng.choice([2, 3])
            script.append(("fill", pts, i, rng.random() < 0.4))
            filled.add(i)
        elif r < 0.7 and filled:
            script.append(("reset", rng.choice([0, 3]), rng.choice(sorted(filled))))
        if filled:
            i = rng.choice(sorted(filled))
            script.append(("kl", 1, i))
            if rng.random() < 0.5:
                script.append(("plotly", 1, i, rng.choice([0, 0, 1, 2, 3, 6]), rng.random() < 0.4))
            if len(filled) == 2 and rng.random() < 0.5:
                script.append(("kl", 2, 3))
                script.append(("plotly", 2, 3))
            if rng.random() < 0.3:
                script.append(("plotly", i, 0))          # a filled id as the reference of the view
    if filled and rng.random() < 0.3:
        script += [("reset", 0, 1), ("plotly", 1, sorted(filled)[0])]      # reference counts all zero: every node must still be listed
    return cfgp, script


def sabotage(trace, rng):
    ks = [k for k, e in enumerate(trace["ev"]) if e["op"] in ("build", "fill", "kl")]
    k = rng.choice(ks)
    e = trace["ev"][k]
    if e["op"] == "kl":
        e["kl"] = num(float(e["kl"]) + 1e-3)
        return trace, k + 1, "kl"
    t = e["tree"]
    while not t["leaf"] and rng.random() < 0.7:
        t = t[rng.choice(["lo", "hi"])]
    t["cnt"][0] += 1
    return trace, k + 1, "count"


# ======================================================================= detectors (C09)
def bracket(ref, ub, lb, sample_size, alpha, n_impl, seed, B=20000):
    """Independent estimate of the documented critical value: the (1 - alpha) quantile of the KL divergence
    between two samples of `sample_size` drawn from the reference leaf distribution; returned as the
    interval between the quantile levels that the implementation's own n_impl-sample order statistic can
    reach with probability 1 - 2e-9 (exact Beta bounds), widened by 6 sigma of this estimate."""
    from menelaus.partitioners import KDQTreePartitioner
    part = KDQTreePartitioner(count_ubound=ub, cutpoint_proportion_lbound=lb)
    part.build(np.array(ref, dtype=float))
    counts = np.array(part.leaf_counts("build"), dtype=float)
    L = len(counts)
    p = (counts + 0.5) / (counts.sum() + L / 2)
    p = p / p.sum()
    rs = np.random.RandomState(seed)
    a = rs.multinomial(sample_size, p, size=B).astype(float)
    b = rs.multinomial(sample_size, p, size=B).astype(float)
    pa = (a + 0.5) / (sample_size + L / 2)
    pb = (b + 0.5) / (sample_size + L / 2)
    kl = np.sort((pa * np.log(pa / pb)).sum(axis=1))
    # the implementation reports the order statistic X_(k) of its n_impl bootstrap values (numpy "nearest");
    # its level F(X_(k)) is Beta(k, n-k+1) distributed: exact 1e-9 bounds, widened by 6 sigma of this estimate
    import scipy.stats
    q = 1 - alpha
    k = int(np.round((n_impl - 1) * q)) + 1
    u_lo = float(scipy.stats.beta.ppf(1e-9, k, n_impl - k + 1))
    u_hi = float(scipy.stats.beta.ppf(1 - 1e-9, k, n_impl - k + 1))
    lo_level = max(0.0, u_lo - 6 * np.sqrt(u_lo * (1 - u_lo) / B))
    hi_level = u_hi + 6 * np.sqrt(max(u_hi * (1 - u_hi), 1.0 / B) / B)
    # an extreme level cannot be estimated from B draws: fall back to the support of the divergence, [0, inf)
    lo = 0.0 if lo_level < 25.0 / B else float(np.quantile(kl, lo_level)) * (1 - 1e-9)
    hi = float("inf") if hi_level > 1 - 25.0 / B else float(np.quantile(kl, hi_level)) * (1 + 1e-9)
    return lo, hi


def _crit(det):
    try:
        v = det._critical_dist
        return num(float(v)) if v is not None else "None"
    except Exception:  # noqa
        return "NA"


def _dist(det):
    try:
        v = det._test_dist
        return num(float(v)) if v is not None else "NA"
    except Exception:  # noqa
        return "NA"


def _feed(x, how):
    """the sample as the caller hands it over.  "halves": a one-row Python list holding x/2, whole numbers as ints and
    the others as floats (with cutpoint_proportion_lbound = 0 the kdq-tree is scale-equivariant and halves are exact, so
    the specification on the integer points x describes the same tree; callers use it only with lbnum = 0); a row of whole numbers is then an all-int list, and the values of the
    window must not depend on the type of the row that happened to come first"""
    if how == "halves":
        return [[v // 2 if v % 2 == 0 else v / 2 for v in x]]
    if how == "frame":
        import pandas as pd
        return pd.DataFrame([list(x)], columns=["c%d" % i for i in range(len(x))], dtype=float)
    return np.array([x], dtype=float)


def run_stream(p, xs, resets=(), seed=0):
    """p: window_size, persistence, alpha, bootstrap_samples, count_ubound, lbnum, lbden; xs: list of integer points"""
    from menelaus.data_drift import KdqTreeStreaming
    lb = p["lbnum"] / p["lbden"]
    det = KdqTreeStreaming(window_size=p["window_size"], persistence=p["persistence"], alpha=p["alpha"],
                           bootstrap_samples=p["bootstrap_samples"], count_ubound=p["count_ubound"],
                           cutpoint_proportion_lbound=lb)
    from .containers import Feeder
    feeder = Feeder(p["feed"]["seed"], p["feed"]["kinds"]) if isinstance(p.get("feed"), dict) else None
    ev = []
    epoch = []       # samples of the current epoch while the reference window is being collected
    have_ref = False
    none = {"crit": "None", "lo": "None", "hi": "None"}
    nb = None
    if p.get("neighbour"):
        # a second streaming kdq-tree detector of the same configuration (smaller window) lives next to the observed one on an unrelated stream
        from .core import Neighbour
        dim = len(xs[0])
        nbd = KdqTreeStreaming(window_size=max(4, p["window_size"] // 2), persistence=p["persistence"], alpha=p["alpha"], bootstrap_samples=10,
                               count_ubound=p["count_ubound"], cutpoint_proportion_lbound=lb)
        cnt = [0]

        def nfeed(o, u):
            cnt[0] += 1
            o.update(np.array([[float(int(u * 997 * (j + 2)) % 13 + 40 * ((cnt[0] // 25) % 2)) for j in range(dim)]]))
        nb = Neighbour(nbd, nfeed, seed)
    for t, x in enumerate(xs):
        if nb:
            nb.step()
        if t in resets:
            det.reset()
            epoch, have_ref = [], False
            ev.append({"op": "reset", "total": int(det.total_samples), "since": int(det.samples_since_reset),
                       "state": st(det.drift_state), "dist": "NA", "c": dict(none)})
        if det.drift_state == "drift":
            epoch, have_ref = [], False
        np.random.seed((seed * 7919 + t) % (2 ** 32))
        det.update(feeder.row(x) if feeder else _feed(x, p.get("feed", "array")))
        c = {"crit": _crit(det), "lo": "None", "hi": "None"}
        if not have_ref:
            epoch.append(x)
            if len(epoch) == p["window_size"]:
                lo, hi = bracket(epoch, p["count_ubound"], lb, p["window_size"], p["alpha"], p["bootstrap_samples"], seed + t)
                c["lo"], c["hi"] = num(lo), num(hi)
                have_ref = True
        viewed, view = detector_view(det, (t * 2654435761 + seed) % 11 == 0)
        ev.append({"op": "update", "x": list(x), "total": int(det.total_samples), "since": int(det.samples_since_reset),
                   "state": st(det.drift_state), "dist": _dist(det), "c": c, "viewed": viewed, "view": view})
    cfg = {"kind": "stream", "W": p["window_size"], "pers": num(p["persistence"]), "ub": p["count_ubound"],
           "lbnum": p["lbnum"], "lbden": p["lbden"]}
    return {"cfg": cfg, "ev": ev, "params": p, "xs": [list(x) for x in xs], "resets": list(resets), "seed": seed}


def run_batch(p, batches, setrefs=(), first_is_reference=True, seed=0, resets=()):
    """batches: list of lists of integer points; setrefs: positions at which the batch is given to set_reference;
    resets: positions before which the user calls reset() (the detector then has no reference: the next batch becomes it)"""
    from menelaus.data_drift import KdqTreeBatch
    lb = p["lbnum"] / p["lbden"]
    det = KdqTreeBatch(alpha=p["alpha"], bootstrap_samples=p["bootstrap_samples"], count_ubound=p["count_ubound"],
                       cutpoint_proportion_lbound=lb)
    from .containers import feeder_of
    feeder = feeder_of(p, "array")
    ev = []
    prev = None
    none = {"crit": "None", "lo": "None", "hi": "None"}

    def br(ref, s):
        lo, hi = bracket(ref, p["count_ubound"], lb, len(ref), p["alpha"], p["bootstrap_samples"], s)
        return num(lo), num(hi)

    have_tree = False
    nb = None
    if p.get("neighbour"):
        from .core import Neighbour
        dim = len(batches[0][0])
        nbd = KdqTreeBatch(alpha=p["alpha"], bootstrap_samples=10, count_ubound=p["count_ubound"], cutpoint_proportion_lbound=lb)
        cnt = [0]

        def nfeed(o, u):
            cnt[0] += 1
            o.update(np.array([[float(int(u * 997 * (i + 3) * (j + 2)) % 17 + 60 * (cnt[0] % 2)) for j in range(dim)] for i in range(24)]))
        nb = Neighbour(nbd, nfeed, seed)
    for t, b in enumerate(batches):
        if nb:
            nb.step()
        if t in resets and t > 0:
            det.reset()
            have_tree, prev = False, None
            ev.append({"op": "reset", "total": int(det.total_batches), "since": int(det.batches_since_reset),
                       "state": st(det.drift_state), "dist": "NA", "c": dict(none), "c0": dict(none)})
        np.random.seed((seed * 7919 + t) % (2 ** 32))
        X = feeder.batch(b)
        if t in setrefs or (t == 0 and first_is_reference):
            have_tree = True
            det.set_reference(X)
            lo, hi = br(b, seed + t)
            ev.append({"op": "set_reference", "data": b, "total": int(det.total_batches), "since": int(det.batches_since_reset),
                       "state": st(det.drift_state), "dist": "NA", "c": {"crit": _crit(det), "lo": lo, "hi": hi},
                       "c0": dict(none)})
            prev = None
            continue
        was_drift = det.drift_state == "drift"
        no_tree = not have_tree
        have_tree = True
        det.update(X)
        c0 = dict(none)
        if was_drift:
            lo, hi = br(prev, seed + t)
            # the re-built reference's critical value is only visible if this batch did not drift again... it always is:
            c0 = {"crit": _crit(det), "lo": lo, "hi": hi}
        elif no_tree:
            lo, hi = br(b, seed + t)
            c0 = {"crit": _crit(det), "lo": lo, "hi": hi}
        viewed, view = detector_view(det, (t + seed) % 2 == 0)
        ev.append({"op": "update", "data": b, "total": int(det.total_batches), "since": int(det.batches_since_reset),
                   "state": st(det.drift_state), "dist": _dist(det) if not no_tree else "NA",
                   "c": {"crit": _crit(det), "lo": "None", "hi": "None"}, "c0": c0, "viewed": viewed, "view": view})
        prev = b
    cfg = {"kind": "batch", "W": 0, "pers": "0.0", "ub": p["count_ubound"], "lbnum": p["lbnum"], "lbden": p["lbden"]}
    return {"cfg": cfg, "ev": ev, "params": p, "batches": batches, "setrefs": list(setrefs),
            "first_is_reference": first_is_reference, "seed": seed, "resets": list(resets)}


def bursty_stream(rng, n, d, w):
    """integer points alternating between a home region and far bursts of varying length, so that the
    accumulated divergence crosses the critical value repeatedly in both directions"""
    out = []
    home = [rng.randint(0, 10) for _ in range(d)]
    while len(out) < n:
        for _ in range(rng.randint(w, 3 * w)):
            out.append([h + rng.randint(-4, 4) for h in home])
        far = [h + rng.choice([-1, 1]) * rng.randint(15, 60) for h in home]
        for _ in range(rng.randint(1, max(2, w))):
            out.append([f + rng.randint(-4, 4) for f in far])
        if rng.random() < 0.3:
            home = far
    return out[:n]


def byte_stream(rng, n, d, w):
    """byte-valued points (0..255) around high levels, with bursts towards the other end of the range"""
    out = []
    home = [rng.randint(150, 235) for _ in range(d)]
    while len(out) < n:
        for _ in range(rng.randint(w, 3 * w)):
            out.append([min(255, max(0, h + rng.randint(-20, 20))) for h in home])
        far = [rng.randint(0, 90) if rng.random() < 0.7 else rng.randint(200, 255) for _ in home]
        for _ in range(rng.randint(1, max(2, w))):
            out.append([min(255, max(0, f + rng.randint(-10, 10))) for f in far])
        if rng.random() < 0.3:
            home = [rng.randint(100, 235) for _ in range(d)]
    return out[:n]


def stream_params(rng):
    w = rng.choice([5, 8, 12, 20])
    return {"window_size": w, "persistence": rng.choice([0.0, 0.05, 0.2, 0.5, 1.0]), "alpha": rng.choice([0.01, 0.05, 0.2, 0.3, 0.5]),
            "bootstrap_samples": rng.choice([30, 60]), "count_ubound": rng.choice([1, 2, 4]),
            "lbnum": rng.choice([0, 1]), "lbden": rng.choice([4, 8])}


def batch_params(rng):
    return {"alpha": rng.choice([0.01, 0.05, 0.2, 0.3, 0.5]), "bootstrap_samples": rng.choice([30, 60]),
            "count_ubound": rng.choice([2, 4, 8]), "lbnum": rng.choice([0, 1]), "lbden": rng.choice([4, 8])}


def batch_sequence(rng, n, d):
    out = []
    home = [rng.randint(0, 10) for _ in range(d)]
    spread = rng.randint(3, 8)
    for _ in range(n):
        if rng.random() < 0.35:
            home = [h + rng.choice([-1, 1]) * rng.randint(5, 40) for h in home]
            spread = rng.randint(2, 12)
        m = rng.randint(12, 40)
        out.append([[h + rng.randint(-spread, spread) for h in home] for _ in range(m)])
    return out


def det_sabotage(trace, rng):
    ks = [k for k, e in enumerate(trace["ev"]) if e["op"] == "update"]
    k = rng.choice(ks)
    e = trace["ev"][k]
    w = rng.choice(["state", "since", "total"])
    if w == "state":
        e["state"] = "drift" if e["state"] == "None" else "None"
    else:
        e[w] += 1
    return trace, k + 1, w
