"""Drivers for KDQTreePartitioner (C08) and the kdq-tree detectors (C09)."""
import numpy as np

from .core import num, st

IDS = {"build": 1, "a": 2, "b": 3}
IDN = {v: k for k, v in IDS.items()}


def walk(node):
    """public tree -> the nested record the specification uses"""
    c = node.num_samples_in_compared_subtrees
    cnt = [int(c[k]) if k in c else -1 for k in ("build", "a", "b")]
    if node.axis is None:
        return {"leaf": True, "cnt": cnt}
    m2 = 2 * float(node.midpoint_at_axis)
    if m2 != round(m2):
        raise AssertionError("driver expects integer data (midpoint %r)" % node.midpoint_at_axis)
    return {"leaf": False, "cnt": cnt, "axis": int(node.axis), "mid2": int(round(m2)),
            "lo": walk(node.left), "hi": walk(node.right)}


def plotly_rows(part, id1, id2):
    df = part.to_plotly_dataframe(tree_id1=IDN[id1], tree_id2=IDN[id2] if id2 else None)
    pos = {}
    rows = []
    for k, r in enumerate(df.to_dict("records"), start=1):
        pos[r["idx"]] = k
        name = r["name"]
        if name == "kdqTree":
            side, paxis = "root", -1
        else:
            parts = name.split()
            paxis = int(parts[1])
            side = "le" if parts[2] == "<=" else "gt"
        rows.append({"parent": pos.get(r["parent_idx"], 0) if r["parent_idx"] is not None else 0,
                     "depth": int(r["depth"]), "cell": int(r["cell_count"]), "side": side, "paxis": paxis,
                     "diff": int(r["count_diff"]) if id2 else 0})
    kss = [num(v) for v in df["kss"]] if id2 else []
    return rows, kss


def session(cfgp, script):
    """script: ("build", data) | ("fill", data, id, reset) | ("reset", value, id) | ("kl", id1, id2) | ("plotly", id1, id2)"""
    from menelaus.partitioners import KDQTreePartitioner
    part = KDQTreePartitioner(count_ubound=cfgp["ub"], cutpoint_proportion_lbound=cfgp["lbnum"] / cfgp["lbden"])
    ev = []
    for s in script:
        op = s[0]
        if op == "build":
            part.build(np.array(s[1], dtype=float))
            ev.append({"op": "build", "data": s[1], "tree": walk(part.node), "counts": [int(x) for x in part.leaf_counts("build")]})
        elif op == "fill":
            d = np.array(s[1], dtype=float).reshape(-1, len(script[0][1][0]))
            part.fill(d, tree_id=IDN[s[2]], reset=s[3])
            ev.append({"op": "fill", "data": s[1], "id": s[2], "reset": bool(s[3]), "tree": walk(part.node),
                       "counts": [int(x) for x in part.leaf_counts(IDN[s[2]])]})
        elif op == "reset":
            part.reset(value=s[1], tree_id=IDN[s[2]])
            ev.append({"op": "reset", "value": int(s[1]), "id": s[2], "tree": walk(part.node)})
        elif op == "kl":
            ev.append({"op": "kl", "id1": s[1], "id2": s[2], "kl": num(part.kl_distance(IDN[s[1]], IDN[s[2]]))})
        elif op == "plotly":
            rows, kss = plotly_rows(part, s[1], s[2])
            ev.append({"op": "plotly", "id1": s[1], "id2": s[2], "rows": rows, "kss": kss})
    return {"cfg": cfgp, "ev": ev, "script": [list(x) for x in script]}


def random_points(rng, n, d, style):
    if style == "grid":
        return [[rng.randint(0, 7) for _ in range(d)] for _ in range(n)]
    if style == "dups":
        base = [[rng.randint(-20, 20) for _ in range(d)] for _ in range(max(1, n // 4))]
        return [list(rng.choice(base)) for _ in range(n)]
    if style == "clusters":
        cs = [[rng.randint(-200, 200) for _ in range(d)] for _ in range(3)]
        return [[c + rng.randint(-15, 15) for c in rng.choice(cs)] for _ in range(n)]
    return [[rng.randint(-1000, 1000) for _ in range(d)] for _ in range(n)]


def random_session(rng, big=False):
    d = rng.randint(1, 4)
    n = rng.randint(1, 60) if not big else rng.randint(50, 400)
    style = rng.choice(["grid", "dups", "clusters", "wide"])
    cfgp = {"ub": rng.choice([1, 2, 3, 5, 8, 20]), "lbnum": rng.choice([0, 0, 1, 1]), "lbden": rng.choice([4, 8, 2])}
    data = random_points(rng, n, d, style)
    script = [("build", data), ("plotly", 1, 0)]
    filled = set()
    for _ in range(rng.randint(2, 6)):
        r = rng.random()
        if r < 0.6:
            m = rng.choice([0, 1, 2, 5, 30]) if not big else rng.randint(0, 200)
            pts = random_points(rng, m, d, rng.choice([style, "wide"]))
            if rng.random() < 0.2:
                pts = data
            i = rng.choice([2, 3])
            script.append(("fill", pts, i, rng.random() < 0.4))
            filled.add(i)
        elif r < 0.7 and filled:
            script.append(("reset", rng.choice([0, 3]), rng.choice(sorted(filled))))
        if filled:
            i = rng.choice(sorted(filled))
            script.append(("kl", 1, i))
            if rng.random() < 0.5:
                script.append(("plotly", 1, i))
            if len(filled) == 2 and rng.random() < 0.5:
                script.append(("kl", 2, 3))
    return cfgp, script


def sabotage(trace, rng):
    ks = [k for k, e in enumerate(trace["ev"]) if e["op"] in ("build", "fill", "kl")]
    k = rng.choice(ks)
    e = trace["ev"][k]
    if e["op"] == "kl":
        e["kl"] = num(float(e["kl"]) + 1e-3)
        return trace, k + 1, "kl"
    t = e["tree"]
    while not t["leaf"] and rng.random() < 0.7:
        t = t[rng.choice(["lo", "hi"])]
    t["cnt"][0] += 1
    return trace, k + 1, "count"
