"""Drivers for NNSpacePartitioner and NNDVI on integer lattice points."""
import itertools

import numpy as np
import scipy.stats

from .core import num, st


def part_record(nnsp, scale=1, off=0):
    D = [[int(round(scale * (float(v) - off))) for v in row] for row in np.asarray(nnsp.D)]
    adj = np.asarray(nnsp.adjacency_matrix)
    nb = [[int(j) + 1 for j in np.nonzero(adj[i])[0]] for i in range(adj.shape[0])]
    return {"D": D, "v1": [int(x) for x in nnsp.v1], "v2": [int(x) for x in nnsp.v2], "nb": nb}


def build_event(s1, s2, k, p=None):
    """p: a partitioner object that has been used before (its public k is set to k first), or None for a new one"""
    from menelaus.partitioners import NNSpacePartitioner
    a, b = np.array(s1, dtype=float), np.array(s2, dtype=float)
    if p is None:
        p = NNSpacePartitioner(k)
    else:
        p.k = k
    p.build(a, b)
    d = NNSpacePartitioner.compute_nnps_distance(p.nnps_matrix, p.v1, p.v2)
    dswap = NNSpacePartitioner.compute_nnps_distance(p.nnps_matrix, p.v2, p.v1)
    q = NNSpacePartitioner(k)
    ks = min(k, len(np.unique(a, axis=0)))
    q = NNSpacePartitioner(ks)
    q.build(a, a)
    dself = NNSpacePartitioner.compute_nnps_distance(q.nnps_matrix, q.v1, q.v2)
    return {"op": "build", "s1": s1, "s2": s2, "k": k, "part": part_record(p), "d": num(d), "dswap": num(dswap), "dself": num(dself)}


def build_trace(s1, s2, k):
    return {"cfg": {"k": k}, "ev": [build_event(s1, s2, k)], "s1": s1, "s2": s2, "k": k}


def build_session(steps):
    """ONE partitioner object used for several builds in a row (steps: [(s1, s2, k)]): the same pooled points split differently, the samples
    swapped, the public neighbourhood size k changed in between - every build describes exactly the samples and the k it was given"""
    from menelaus.partitioners import NNSpacePartitioner
    p = NNSpacePartitioner(steps[0][2])
    ev = [build_event(s1, s2, k, p) for s1, s2, k in steps]
    return {"cfg": {"k": steps[0][2]}, "ev": ev, "steps": [[s1, s2, k] for s1, s2, k in steps], "s1": steps[0][0], "s2": steps[0][1], "k": steps[0][2]}


def resplit_steps(rng):
    d = rng.randint(1, 2)
    a = lattice(rng, rng.randint(3, 14), d, [0] * d, rng.randint(2, 6))
    b = lattice(rng, rng.randint(3, 14), d, [rng.randint(0, 2)] * d, rng.randint(2, 6))
    pool = a + b
    nd = len({tuple(r) for r in pool})
    ks = [k for k in (1, 2, 3, 5) if k <= nd]
    steps = [(a, b, rng.choice(ks))]
    for _ in range(rng.randint(2, 4)):
        r = rng.random()
        k = steps[-1][2] if rng.random() < 0.5 else rng.choice(ks)
        if r < 0.3:
            steps.append((steps[-1][1], steps[-1][0], k))                      # the samples swapped
        elif r < 0.6:
            sh = list(pool)
            rng.shuffle(sh)
            cut = rng.randint(1, len(sh) - 1)
            steps.append((sh[:cut], sh[cut:], k))                              # the same pooled points, split differently
        elif r < 0.8:
            steps.append((pool, pool, k))                                      # both samples the whole pool: distance 0
        else:
            steps.append((a, lattice(rng, rng.randint(3, 10), d, [3] * d, 4), k))   # other points altogether
    return steps


def theta_bracket(part, k, sampling_times, alpha, seed, B=1500):
    """independent estimate of the documented threshold: the (1 - alpha) quantile of the normal fitted to the NNPS
    distances under random re-assignment of the pooled points, with a 6-sigma interval for an estimator that
    uses `sampling_times` permutations"""
    n = len(part["D"])
    adj = np.zeros((n, n))
    for i, row in enumerate(part["nb"]):
        for j in row:
            adj[i, j - 1] = 1.0
    v1 = np.array(part["v1"], dtype=float)
    rs = np.random.RandomState(seed)
    ds = np.empty(B)
    for b in range(B):
        a = rs.permutation(v1)
        m1, m2 = a @ adj, (1 - a) @ adj
        ds[b] = np.sum(np.abs(m1 - m2) / (m1 + m2)) / n
    mu, sd = ds.mean(), ds.std()
    z = scipy.stats.norm.ppf(1 - alpha)
    theta = mu + z * sd
    # spread of the estimator mean + z * deviation over samples of `sampling_times` re-assignments, measured by resampling the pool (the
    # permutation distribution on small lattices is discrete and skewed: a normal-theory formula was measurably too tight), 8 deviations wide
    m = max(2, int(sampling_times))
    sub = ds[rs.randint(0, B, size=(600, m))]
    est = sub.mean(axis=1) + z * sub.std(axis=1)
    half = 8 * float(est.std()) * np.sqrt(1.0 + m / B) + abs(float(est.mean()) - theta) + 1e-12
    return theta - half, theta + half


def run_nndvi(p, script, seed=0):
    """p: k_nn, sampling_times, alpha; script: ("set_reference", rows) | ("update", rows) | ("reset",)"""
    from menelaus.data_drift import NNDVI
    from menelaus.partitioners import NNSpacePartitioner
    det = NNDVI(k_nn=p["k_nn"], sampling_times=p["sampling_times"], alpha=p["alpha"])
    from .containers import feeder_of
    feeder = feeder_of(p, "array")
    seen = {}
    try:  # observe the threshold by wrapping the static helper on this instance (optional)
        orig = NNDVI._compute_drift_threshold

        def wrapped(*a, **kw):
            v = orig(*a, **kw)
            seen["theta"] = float(v)
            try:      # the partition the update actually works with (which of several equidistant neighbours sklearn returns can differ from call to call)
                seen["M"], seen["v1"], seen["v2"] = np.array(a[0]), np.array(a[1]), np.array(a[2])
            except Exception:  # noqa
                pass
            return v
        det._compute_drift_threshold = wrapped
    except Exception:  # noqa
        pass
    ev = []

    # "halves": the detector receives every coordinate divided by two (neighbour relations and the NNPS distance are scale-invariant and
    # halves are exact); a batch on the even lattice is then all-whole and reaches the detector with an integer dtype from most containers,
    # the others carry fractions - what a batch IS must not depend on the dtype of the reference it is compared with
    # "tiny": the same points in units of 2**-40 (about 1e-12): distinct points stay distinct however close they are in absolute terms
    scale = 2 if p.get("halves") else (2 ** 40 if p.get("tiny") else 1)
    # "offset": the same points riding on 2**24 (ids, counters, timestamps): neighbour relations are translation-invariant and every coordinate is an
    # exact double - points one unit apart stay distinct points however large the level.  (Not larger: scikit-learn's brute-force search expands
    # |x - y|^2 = |x|^2 + |y|^2 - 2 x.y, which is exact in double precision only while those terms stay below 2**53 - at 2**26 it is not, and
    # the library's own neighbour relation is then no longer the k-NN relation of the points; that is scikit-learn's arithmetic, not menelaus'.)
    off = float(2 ** 24) if p.get("offset") else 0.0
    to_det = (lambda rows: [[v / scale + off for v in r] for r in rows]) if (scale != 1 or off) else (lambda rows: rows)

    def refrows():
        return [[int(round(scale * (float(v) - off))) for v in r] for r in np.asarray(det.reference_batch)]

    def counters():
        return {"total": int(det.total_batches), "since": int(det.batches_since_reset), "state": st(det.drift_state)}

    from .core import Neighbour
    dim = len(script[0][1][0])
    nbd = NNDVI(k_nn=2, sampling_times=5, alpha=0.2)
    nbd.set_reference(np.array([[float((5 * i + 3 * j) % 7) for j in range(dim)] for i in range(9)]))
    nbc = [0]

    def nfeed(o, u):
        nbc[0] += 1
        o.update(np.array([[float(int(u * 991 * (i + 2) * (j + 3)) % 9 + 30 * (nbc[0] % 2)) for j in range(dim)] for i in range(8)]))
    nb = Neighbour(nbd, nfeed, seed)       # a second NNDVI alive next to the observed one, on unrelated batches
    for t, s in enumerate(script):
        nb.step()
        np.random.seed((seed * 7919 + t) % (2 ** 32))
        if s[0] == "set_reference":
            det.set_reference(feeder.batch(to_det(s[1])))
            e = {"op": "set_reference", "data": s[1], "ref": refrows()}
        elif s[0] == "reset":
            det.reset()
            e = {"op": "reset", "ref": refrows()}
        elif s[0] in ("bad_ref", "bad_update"):
            # a malformed set_reference / update (one column too many, or a single row): refused, and nothing about the detector moves
            width = len(script[0][1][0])
            bad = np.zeros((5, width + 1)) if t % 2 else np.zeros((1, width))
            try:
                (det.set_reference if s[0] == "bad_ref" else det.update)(bad)
                e = {"op": "refused-but-accepted", "ref": refrows()}
            except ValueError:
                e = {"op": "refused", "ref": refrows()}
        else:
            ref_before = np.array(det.reference_batch, dtype=float)
            X = np.array(to_det(s[1]), dtype=float)
            nn = NNSpacePartitioner(p["k_nn"])
            nn.build(ref_before, X)
            part = part_record(nn, scale, off)
            for key in ("theta", "M", "v1", "v2"):
                seen.pop(key, None)
            # observe the distances the update computes (optional): the first is the batch's own, the following sampling_times are
            # those of the random re-assignments the threshold is fitted to - however they were drawn
            dists = []
            orig_dist = NNSpacePartitioner.__dict__.get("compute_nnps_distance")
            try:
                fn = orig_dist.__func__ if isinstance(orig_dist, staticmethod) else orig_dist

                def recording(*a, **kw):
                    v = fn(*a, **kw)
                    dists.append(float(v))
                    return v
                NNSpacePartitioner.compute_nnps_distance = staticmethod(recording)
                det.update(feeder.batch(to_det(s[1])))
            finally:
                if orig_dist is not None:
                    NNSpacePartitioner.compute_nnps_distance = orig_dist
            if "M" in seen and seen["M"].shape == (len(part["D"]), len(part["D"])):
                M = seen.pop("M")
                part = dict(part, v1=[int(x) for x in seen.pop("v1")], v2=[int(x) for x in seen.pop("v2")],
                            nb=[[int(j) + 1 for j in np.nonzero(M[i])[0]] for i in range(M.shape[0])])
            fit = "NA"
            nre = len(dists) - 1 if len(dists) > 1 else -1        # re-assignment distances observed (-1: none could be observed)
            if len(dists) == p["sampling_times"] + 1:
                mu, sd = float(np.mean(dists[1:])), float(np.std(dists[1:]))
                fit = num(scipy.stats.norm.ppf(1 - p["alpha"], mu, sd))
            lo, hi = theta_bracket(part, p["k_nn"], p["sampling_times"], p["alpha"], seed + t)
            e = {"op": "update", "data": s[1], "part": part, "ref": refrows(),
                 "th": {"theta": num(seen["theta"]) if "theta" in seen else "NA", "lo": num(lo), "hi": num(hi), "fit": fit, "nre": nre, "st": p["sampling_times"]}}
        e.update(counters())
        ev.append(e)
    return {"cfg": {"k": p["k_nn"]}, "ev": ev, "params": p, "script": [list(s) for s in script], "seed": seed}


def lattice(rng, n, d, loc, spread, even=False):
    if even:
        return [[2 * ((loc[i] + rng.randint(0, spread)) // 2) for i in range(d)] for _ in range(n)]
    return [[loc[i] + rng.randint(0, spread) for i in range(d)] for _ in range(n)]


def nndvi_history(rng, nb, equal_sizes=False, some_even=False):
    d = rng.randint(1, 3)
    loc = [rng.randint(-3, 3) for _ in range(d)]
    spread = rng.randint(3, 7) if d > 1 else rng.randint(9, 15)
    n0 = rng.randint(10, 24)
    script = [("set_reference", lattice(rng, n0, d, loc, spread, some_even))]
    for b in range(nb):
        if rng.random() < 0.35:
            loc = [x + rng.choice([-1, 1]) * rng.randint(2, 9) for x in loc]
        if rng.random() < 0.08 and b > 0:
            script.append(("set_reference", lattice(rng, rng.randint(8, 20), d, loc, spread)))
        if rng.random() < 0.05 and b > 0:
            script.append(("reset",))
        if rng.random() < 0.12:
            script.append((rng.choice(["bad_ref", "bad_update"]),))
        n = n0 if equal_sizes else rng.randint(6, 28)
        if rng.random() < 0.12 and not equal_sizes:
            # the reference fed again, or a sub-sample of it (a replayed file, categorical data whose distinct rows are all known already):
            # every random re-assignment yields the same distance, the fitted threshold is undefined, and nothing may be reported
            ref = [r for s_ in script if s_[0] == "set_reference" for r in [s_[1]]][-1]
            rows = ref if rng.random() < 0.4 else [rng.choice(ref) for _ in range(rng.randint(4, len(ref)))]
            script.append(("update", [list(r) for r in rows]))
            continue
        script.append(("update", lattice(rng, n, d, loc, spread, some_even and rng.random() < 0.4)))
    return script


def safe_k(script, k):
    """the largest neighbourhood size <= k that is legal for EVERY pair of batches of the history (the neighbours are looked for among the pooled
    distinct points of reference and batch; which batch is the reference at a given time depends on the drifts)"""
    bs = [s_[1] for s_ in script if len(s_) > 1]
    m = min(len({tuple(r) for r in a + b}) for i, a in enumerate(bs) for b in bs[i + 1:]) if len(bs) > 1 else len({tuple(r) for r in bs[0]})
    return max(1, min(k, m))


def nndvi_history_wide(rng, nb, k):
    """histories for a neighbourhood size k that is larger than some batches have rows (legal: the neighbours are looked for among the POOLED distinct
    points of both batches).  Any two batches of the history pool to at least k + 1 distinct points."""
    d = 2
    loc, spread = [rng.randint(-3, 3) for _ in range(d)], rng.randint(5, 7)
    batches = []
    while len(batches) < nb + 1:
        if batches and rng.random() < 0.35:
            loc = [x + rng.choice([-1, 1]) * rng.randint(2, 6) for x in loc]
        n = rng.randint(16, 24) if not batches else rng.choice([rng.randint(4, k - 1), rng.randint(4, k - 1), rng.randint(12, 20)])
        b = lattice(rng, n, d, loc, spread)
        if all(len({tuple(r) for r in b + o}) > k for o in batches) and len({tuple(r) for r in b}) > 2:
            batches.append(b)
    return [("set_reference", batches[0])] + [("update", b) for b in batches[1:]]


def sabotage(trace, rng):
    ks = [k for k, e in enumerate(trace["ev"]) if e["op"] in ("update", "build")]
    k = rng.choice(ks)
    e = trace["ev"][k]
    if e["op"] == "build":
        if rng.random() < 0.5:
            e["d"] = num(float(e["d"]) + 1e-3)
            return trace, k + 1, "distance"
        i = rng.randrange(len(e["part"]["v1"]))
        e["part"]["v1"][i] = 1 - e["part"]["v1"][i]
        return trace, k + 1, "membership"
    w = rng.choice(["state", "since", "ref"])
    if w == "state":
        e["state"] = "drift" if e["state"] == "None" else "None"
    elif w == "since":
        e["since"] += 1
    else:
        e["ref"] = e["ref"][1:] + e["ref"][:1] if len(set(map(tuple, e["ref"]))) > 1 and e["ref"][0] != e["ref"][-1] else e["ref"] + [e["ref"][0]]
    return trace, k + 1, w
