"""TLC runner: model runs, batch trace validation, behaviour generation.

Everything runs with cwd=/verif/spec so that Num.class (the Java override of module Num) is found.
Scratch (TLC -metadir, trace shards) lives under /verif/.scratch/<pid>/ and is removed by the caller
(`cleanup()`), never under /tmp.
"""
import json
import os
import re
import shutil
import subprocess
import sys
import time
from concurrent.futures import ThreadPoolExecutor

VERIF = os.path.dirname(os.path.dirname(os.path.abspath(__file__)))
SPEC = os.path.join(VERIF, "spec")
SCRATCH = os.path.join(VERIF, ".scratch", str(os.getpid()))
JAR = "/opt/veriftools/tla/tla2tools.jar:/opt/veriftools/tla/CommunityModules-deps.jar"
_counter = [0]


class MachineryError(Exception):
    """TLC crashed, SANY error, vacuity, sabotage not rejected... (exit 2, never a VIOLATION)."""


def scratch(name=None):
    os.makedirs(SCRATCH, exist_ok=True)
    _counter[0] += 1
    p = os.path.join(SCRATCH, "%s%d" % (name or "x", _counter[0]))
    return p


def cleanup():
    shutil.rmtree(SCRATCH, ignore_errors=True)
    try:
        os.rmdir(os.path.dirname(SCRATCH))
    except OSError:
        pass


def ensure_built():
    """Compile Num.java if the class file is missing or stale (setup_cmd does it too)."""
    src = os.path.join(SPEC, "Num.java")
    cls = os.path.join(SPEC, "Num.class")
    if not os.path.exists(cls) or os.path.getmtime(cls) < os.path.getmtime(src):
        r = subprocess.run(["javac", "-cp", JAR.split(":")[0], "Num.java"], cwd=SPEC,
                           capture_output=True, text=True)
        if r.returncode != 0:
            raise MachineryError("javac Num.java failed: " + r.stderr)


_STATS = re.compile(r"(\d+) states generated, (\d+) distinct states found")
_DEPTH = re.compile(r"The depth of the complete state graph search is (\d+)")


def run_tlc(module, cfg, env=None, workers=16, extra=(), timeout=3600, xmx="4g", deque=False, tol=None):
    """Run TLC on spec/<module>.tla with spec/<cfg>.  Returns dict(out, rc, generated, distinct, depth, wall)."""
    ensure_built()
    meta = scratch("meta")
    e = dict(os.environ)
    if env:
        e.update(env)
    jopts = (["-XX:+UseSerialGC", "-XX:TieredStopAtLevel=1"] if workers == 1 else ["-XX:+UseParallelGC"]) + ["-Xmx" + xmx, "-Xss256m"]
    if tol is not None:
        jopts.append("-Dnum.tol=%s" % tol)
    if deque:
        jopts.append("-Dtlc2.tool.queue.IStateQueue=StateDeque")
    jtmp = meta + "_tmp"           # TLC creates a temporary directory per run: keep it inside the scratch area, not in /tmp
    os.makedirs(jtmp, exist_ok=True)
    jopts.append("-Djava.io.tmpdir=" + jtmp)
    cmd = ["java"] + jopts + ["-cp", JAR, "tlc2.TLC", "-workers", str(workers), "-metadir", meta,
                               "-noGenerateSpecTE", "-config", cfg] + list(extra) + [module]
    t0 = time.time()
    try:
        r = subprocess.run(cmd, cwd=SPEC, env=e, capture_output=True, text=True, timeout=timeout)
        out, rc = r.stdout + r.stderr, r.returncode
    except subprocess.TimeoutExpired as ex:
        out = (ex.stdout or b"").decode() if isinstance(ex.stdout, bytes) else (ex.stdout or "")
        rc = -9
    shutil.rmtree(meta, ignore_errors=True)
    shutil.rmtree(jtmp, ignore_errors=True)
    res = {"out": out, "rc": rc, "wall": time.time() - t0, "generated": 0, "distinct": 0, "depth": 0,
           "cmd": " ".join(cmd[cmd.index("tlc2.TLC"):])}
    m = None
    for m in _STATS.finditer(out):
        pass
    if m:
        res["generated"], res["distinct"] = int(m.group(1)), int(m.group(2))
    m = _DEPTH.search(out)
    if m:
        res["depth"] = int(m.group(1))
    return res


def tlc_error(res):
    """Extract TLC's error text (invariant violated / evaluation error), or None."""
    out = res["out"]
    if res["rc"] == 0 and "Error:" not in out:
        return None
    i = out.find("Error:")
    return out[i:i + 3000] if i >= 0 else out[-3000:]


def model_check(module, cfg=None, workers=16, extra=(), timeout=3600, require_actions=(), xmx="8g"):
    """Exhaustive TLC run of an MC_ instance; any error is a machinery error (the model does not
    depend on the code).  Returns stats dict."""
    cfg = cfg or module + ".cfg"
    res = run_tlc(module, cfg, workers=workers, extra=["-coverage", "1"] + list(extra), timeout=timeout, xmx=xmx, tol="0")
    err = tlc_error(res)
    if err or "Model checking completed. No error has been found." not in res["out"]:
        raise MachineryError("model %s/%s failed:\n%s" % (module, cfg, err or res["out"][-3000:]))
    if res["distinct"] < 2:
        raise MachineryError("model %s vacuous: %d states" % (module, res["distinct"]))
    cov = action_coverage(res["out"])
    for a in require_actions:
        if cov.get(a, 0) == 0:
            raise MachineryError("model %s vacuous: action %s never taken (coverage %r)" % (module, a, cov))
    res["actions"] = cov
    return res


_ACT = re.compile(r"^<(\w+) line \d+, col \d+ to line \d+, col \d+ of module (\w+)(?: \([\d ]+\))?>: (\d+):(\d+)", re.M)


def action_coverage(out):
    """Per-action distinct-state counts from `-coverage 1` output (last report wins)."""
    cov = {}
    for m in _ACT.finditer(out):
        cov[m.group(1)] = int(m.group(3))
    return cov


# ---------------------------------------------------------------------------------------------
# conformance A: batch trace validation

_LINE = re.compile(r'^"(REJECT|MISMATCH)\|(.*)"\s*$', re.M)


def _parse_prints(out):
    rejects, mism = {}, {}
    for m in _LINE.finditer(out):
        kind, rest = m.group(1), m.group(2)
        if kind == "REJECT":
            a, b = rest.split("|")
            rejects[int(a)] = int(b)
        else:
            parts = rest.split("|", 3)
            t, l, name = int(parts[0]), int(parts[1]), parts[2]
            detail = parts[3].replace('\\"', '"') if len(parts) > 3 else ""
            lst = mism.setdefault((t, l), [])
            if (name, detail) not in lst:
                lst.append((name, detail))
    return rejects, mism


def validate_traces(module, traces, shards=16, cfg="Trace.cfg", timeout=3600, extra_env=None, deque=False):
    """Validate a list of trace dicts ({"cfg":..., "ev":[...]}) against spec/<module>.tla.
    Returns (verdicts, stats): verdicts[i] = None if accepted else dict(at=<1-based event index of
    the first event no behaviour explains>, clauses=[(name, detail)...])."""
    n = len(traces)
    if n == 0:
        return [], {"generated": 0, "distinct": 0, "wall": 0.0}
    shards = max(1, min(shards, n))
    # balance by event count
    order = sorted(range(n), key=lambda i: -len(traces[i]["ev"]))
    buckets = [[] for _ in range(shards)]
    loads = [0] * shards
    for i in order:
        k = loads.index(min(loads))
        buckets[k].append(i)
        loads[k] += len(traces[i]["ev"]) + 1
    files = []
    for k, b in enumerate(buckets):
        p = scratch("tr") + ".json"
        with open(p, "w") as f:
            json.dump({"traces": [traces[i] for i in b]}, f)
        files.append(p)

    def one(k):
        env = {"TRACE_FILE": files[k]}
        if extra_env:
            env.update(extra_env)
        return run_tlc(module, cfg, env=env, workers=1, timeout=timeout, xmx="3g", deque=deque)

    with ThreadPoolExecutor(max_workers=shards) as ex:
        results = list(ex.map(one, range(shards)))
    verdicts = [None] * n
    stats = {"generated": 0, "distinct": 0, "wall": 0.0}
    for k, res in enumerate(results):
        err = tlc_error(res)
        if err or "Model checking completed" not in res["out"]:
            raise MachineryError("trace validation %s crashed (shard %d):\n%s" % (module, k, err or res["out"][-3000:]))
        stats["generated"] += res["generated"]
        stats["distinct"] += res["distinct"]
        stats["wall"] = max(stats["wall"], res["wall"])
        rejects, mism = _parse_prints(res["out"])
        for t, at in rejects.items():
            i = buckets[k][t - 1]
            verdicts[i] = {"at": at, "clauses": mism.get((t, at), [])}
    for p in files:
        try:
            os.remove(p)
        except OSError:
            pass
    return verdicts, stats


# ---------------------------------------------------------------------------------------------
# conformance B: behaviours generated by TLC (Gen_ modules print one JSON line per behaviour)

_GEN = re.compile(r'^"?(GEN\|.*?)"?\s*$', re.M)


def generate(module, cfg=None, workers=1, extra=(), timeout=3600, env=None):
    """Run a Gen_ instance and return the behaviours it printed.  A Gen_ module prints, for each
    behaviour, PrintT("GEN|" \\o ToJson(hist)) -> lines `"GEN|{...json...}"` with TLA+ string
    escaping (\\" and \\\\)."""
    cfg = cfg or module + ".cfg"
    res = run_tlc(module, cfg, workers=workers, extra=extra, timeout=timeout, env=env, xmx="8g")
    err = tlc_error(res)
    if err or "Model checking completed" not in res["out"] and "Finished in" not in res["out"]:
        raise MachineryError("generation %s failed:\n%s" % (module, err or res["out"][-3000:]))
    beh = []
    for line in res["out"].splitlines():
        if line.startswith('"GEN|'):
            body = line[5:].rstrip()
            if body.endswith('"'):
                body = body[:-1]
            body = body.replace('\\"', '"').replace("\\\\", "\\")
            beh.append(json.loads(body))
    return beh, res
