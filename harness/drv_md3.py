"""Driver for MD3 with deterministic, clone-able classifiers and a user-supplied margin function."""
import numpy as np
import pandas as pd
from sklearn.base import BaseEstimator, ClassifierMixin, clone
from sklearn.model_selection import KFold

from .core import num, st


class ThresholdClf(BaseEstimator, ClassifierMixin):
    """predicts 1 iff x0 > t.  mode 'fixed': t = 0 whatever the training data; mode 'mean': t = mean of the
    training x0 (so every cross-validation fold has its own decision rule)."""

    def __init__(self, mode="fixed"):
        self.mode = mode

    def fit(self, X, y):
        X = np.asarray(X, dtype=float)
        self.t_ = 0.0 if self.mode == "fixed" else float(X[:, 0].mean())
        self.classes_ = np.array([0, 1])
        return self

    def predict(self, X):
        X = np.asarray(X, dtype=float)
        return (X[:, 0] > self.t_).astype(int)


def margin(self, sample, clf):
    """user-supplied margin inclusion signal: within 1 of the classifier's threshold"""
    return 1 if abs(float(sample[0]) - clf.t_) <= 1.0 else 0


def margin_svc(sample, clf):
    """independent statement of the library's default margin inclusion signal for a linear sklearn SVC:
    1 iff |w . x + intercept / w[1]| <= 1 (the documented function for sklearn.svm.SVC)"""
    w = np.asarray(clf.coef_[0], dtype=float)
    b = float(np.asarray(clf.intercept_)[0]) / float(w[1])
    return 1 if abs(float(np.dot(w, np.asarray(sample, dtype=float))) + b) <= 1 else 0


def mbit(sample, clf):
    return margin_svc(sample, clf) if hasattr(clf, "coef_") else margin(None, sample, clf)


def fold_table(n, k):
    f = [0] * n
    for j, (_, te) in enumerate(KFold(n_splits=k, random_state=42, shuffle=True).split(np.zeros((n, 1)))):
        for i in te:
            f[i] = j + 1
    return f


def ref_bits(df, clf, k):
    """per-row <<margin bit, correct bit>> under the clone trained on the other folds (kernel table built
    from the user functions themselves and sklearn's KFold)"""
    X, y = df[["x0", "x1"]], df["y"]
    rows = [None] * len(df)
    for tr, te in KFold(n_splits=k, random_state=42, shuffle=True).split(X):
        c = clone(clf).fit(X.iloc[tr], y.iloc[tr].values.ravel())
        pred = c.predict(X.iloc[te])
        for pos, i in enumerate(te):
            rows[i] = [mbit(X.iloc[i].to_numpy(), c), int(pred[pos] == y.iloc[i])]
    return rows


def project(det):
    r = det.reference_distribution
    return {"state": st(det.drift_state), "waiting": bool(det.waiting_for_oracle),
            "noracle": 0 if det.oracle_data is None else int(len(det.oracle_data)),
            "total": int(det.total_updates), "since": int(det.updates_since_reset), "cur": num(det.curr_margin_density),
            "ref": {"n": int(r["len"]), "md": num(r["md"]), "mdstd": num(r["md_std"]), "acc": num(r["acc"]), "accstd": num(r["acc_std"])}}


def sample_row(rng, inmargin, label_correct=None):
    """a sample with x0 chosen in / out of the margin of the threshold-0 classifier; label right or wrong"""
    x0 = rng.choice([-0.75, -0.25, 0.5, 1.0]) if inmargin else rng.choice([-4.0, -2.5, 1.5, 3.0, 6.0])
    row = {"x0": x0, "x1": float(rng.randint(-3, 3))}
    if label_correct is not None:
        pred = int(x0 > 0)
        row["y"] = pred if label_correct else 1 - pred
    return row


def svc_row(rng, clf, inmargin, label_correct=None, want_y=None):
    """a point whose default-margin bit under the fitted SVC is the requested one (rejection sampling); labelled rows
    alternate their label (want_y) so that every cross-validation fold of a later reference sees both classes"""
    def pred_ok(x):
        if label_correct is None or want_y is None:
            return True
        pred = int(clf.predict(pd.DataFrame([{"x0": x[0], "x1": x[1]}]))[0])
        return pred == (want_y if label_correct else 1 - want_y)
    x = None
    for need_margin in (True, False):          # the label's parity matters more than the requested margin bit
        for _ in range(600):
            x = [round(rng.uniform(-5, 5), 3), round(rng.uniform(-5, 5), 3)]
            if need_margin and margin_svc(x, clf) != int(bool(inmargin)):
                continue
            if pred_ok(x):
                break
        else:
            continue
        break
    row = {"x0": x[0], "x1": x[1]}
    if label_correct is not None:
        pred = int(clf.predict(pd.DataFrame([row]))[0])
        # the label's parity wins over the requested correctness bit (the event records the bit that resulted)
        row["y"] = want_y if want_y is not None else (pred if label_correct else 1 - pred)
    return row


def run(p, script, seed=0):
    """p: sensitivity, k, L (or None), n0, clf_mode; script items:
       ("update", m) ("update2",) ("label", m, c) ("label_badcols", m, c) ("label2",)"""
    import random
    from menelaus.concept_drift import MD3
    rng = random.Random(seed)
    svc = p["clf_mode"] == "svc"
    if svc:
        # the library's defaults: a fitted linear sklearn SVC and the built-in margin inclusion signal
        from sklearn.svm import SVC
        a, b = rng.uniform(-1, 1), rng.choice([-1, 1]) * rng.uniform(0.4, 1.2)
        rows = []
        for i in range(p["n0"]):
            x = [round(rng.uniform(-4, 4), 3), round(rng.uniform(-4, 4), 3)]
            y = int(a * x[0] + b * x[1] > 0)
            rows.append({"x0": x[0], "x1": x[1], "y": y if rng.random() < p["pacc"] else 1 - y})
        for i in (0, 1, 2, 3):
            rows[i]["y"] = i % 2       # both classes occur
        ref = pd.DataFrame(rows)
        clf = SVC(kernel="linear").fit(ref[["x0", "x1"]], ref["y"].values)
        def mk(m, c=None):
            return svc_row(rng, clf, m, c, len(pending) % 2)      # accepted labels alternate between the classes
        det = MD3(clf=clf, sensitivity=p["sensitivity"], k=p["k"], oracle_data_length_required=p["L"])
    else:
        clf = ThresholdClf(p["clf_mode"]).fit(np.zeros((2, 2)), [0, 1])
        if p["clf_mode"] == "mean":
            clf.t_ = 0.0
        # reference batch
        rows = []
        for i in range(p["n0"]):
            rows.append(sample_row(rng, rng.random() < p["pmargin"], rng.random() < p["pacc"]))
        ref = pd.DataFrame(rows)
        mk = lambda m, c=None: sample_row(rng, m, c)
        det = MD3(clf=clf, margin_calculation_function=margin, sensitivity=p["sensitivity"], k=p["k"],
                  oracle_data_length_required=p["L"])
    # the reference batch's row labels: pandas' default, or those of a shuffled / sliced / text-indexed frame (rows are positions)
    rstyle = rng.choice(["default", "default", "shuffled", "offset", "text"])
    if rstyle == "shuffled":
        lab = list(range(len(ref)))
        rng.shuffle(lab)
        ref.index = lab
    elif rstyle == "offset":
        ref.index = range(500, 500 + len(ref))
    elif rstyle == "text":
        ref.index = ["s%d" % i for i in range(len(ref))]
    det.set_reference(ref, target_name="y")
    L = p["L"] if p["L"] is not None else p["n0"]
    ev = [dict(op="set_reference", rows=ref_bits(ref, clf, p["k"]), raised="None", m=0, c=0, nrows=p["n0"], colsok=True,
               newref=[], **project(det))]
    # the row label of the one-row frames handed over: 0 (a fresh frame), the running position (one-row slices `stream.iloc[[t]]` of a larger
    # frame; each waiting period then starts at an arbitrary small or large label), or one fixed non-zero label.  Rows are rows.
    istyle = rng.choice(["zero", "pos", "pos1", "same"])
    calls = [rng.choice([0, 1, 2, 3])]

    def one(row):
        calls[0] += 1
        k = {"zero": 0, "pos": calls[0], "pos1": calls[0] % 3 + 1, "same": 2}[istyle]
        return pd.DataFrame([row], index=[k])
    pending = []      # labelled rows given so far in this waiting period (to compute their bits when they become the reference)
    # a second MD3 (its own classifier, reference and stream) alive next to the observed one
    from .core import Neighbour
    nclf = ThresholdClf("fixed").fit(np.zeros((2, 2)), [0, 1])
    nbd = MD3(clf=nclf, margin_calculation_function=margin, sensitivity=1.0, k=2, oracle_data_length_required=3)
    nbd.set_reference(pd.DataFrame([{"x0": float((3 * i) % 7 - 3), "x1": float(i % 3), "y": int((3 * i) % 7 - 3 > 0)} for i in range(12)]), target_name="y")

    def nfeed(o, u):
        row = {"x0": round(8 * u - 4, 2), "x1": 1.0}
        if o.waiting_for_oracle:
            row["y"] = int(row["x0"] > 0)
            o.give_oracle_label(pd.DataFrame([row]))
        else:
            o.update(pd.DataFrame([row]))
    nb = Neighbour(nbd, nfeed, seed)
    for s in script:
        if s[0] == "setref" and svc:
            continue          # (a fitted SVC needs both classes in every fold of a new reference: the call is exercised with the threshold classifiers only)
        nb.step()
        kind = s[0]
        raised = "None"
        e = {"op": "update" if kind.startswith("update") else "label", "m": 0, "c": 0, "nrows": 1, "colsok": True, "newref": []}
        try:
            if kind == "update":
                row = mk(bool(s[1]))
                e["m"] = mbit([row["x0"], row["x1"]], clf) if svc else s[1]
                det.update(one(row))
            elif kind == "update2":
                e["nrows"] = 2
                det.update(pd.DataFrame([mk(True), mk(False)]))
            elif kind == "label":
                row = mk(bool(s[1]), bool(s[2]))
                was_waiting = det.waiting_for_oracle
                n_before = 0 if det.oracle_data is None else len(det.oracle_data)
                lab = one(row)
                if rng.random() < 0.4:          # the same columns in another order: still the same labelled sample
                    cols = list(lab.columns)
                    rng.shuffle(cols)
                    lab = lab[cols]
                det.give_oracle_label(lab)
                e["m"], e["c"] = (mbit([row["x0"], row["x1"]], clf) if svc else s[1]), s[2]
                if svc:
                    e["c"] = int(int(clf.predict(pd.DataFrame([{"x0": row["x0"], "x1": row["x1"]}]))[0]) == row["y"])
                if was_waiting and n_before + 1 == L:
                    # the labelled samples became the reference: their bits under the fold clones
                    newref = pd.DataFrame(pending + [row])
                    bits = ref_bits(newref, clf, p["k"])
                    e["newref"] = bits
                    pending = []
                else:
                    pending.append(row)
            elif kind == "label_badcols":
                row = mk(bool(s[1]), bool(s[2]))
                e["colsok"] = False
                if rng.random() < 0.5:
                    row["z"] = row.pop("x1")
                    det.give_oracle_label(pd.DataFrame([row]))
                else:       # the reference's names, one of them twice: not the reference's columns either
                    lab = pd.DataFrame([row])
                    dup = rng.choice(list(lab.columns))
                    det.give_oracle_label(pd.concat([lab, lab[[dup]]], axis=1))
            elif kind == "setref":
                # the user hands over a NEW reference (as many rows as the first one) - whatever the protocol state is; labelled samples accepted so
                # far in an open oracle round stay accepted
                nr = pd.DataFrame([mk(rng.random() < 0.5, rng.random() < 0.7) for _ in range(p["n0"])])
                bits = ref_bits(nr, clf, p["k"])
                e["op"], e["nrows"], e["rows"] = "set_reference", p["n0"], bits
                det.set_reference(nr, target_name="y")
            elif kind == "label2":
                e["nrows"] = 2
                det.give_oracle_label(pd.DataFrame([mk(True, True), mk(False, True)]))
        except Exception as ex:  # noqa
            raised = type(ex).__name__
        e["raised"] = raised
        e.update(project(det))
        ev.append(e)
    folds = {str(n): fold_table(n, p["k"]) for n in sorted({p["n0"], L})}
    return {"cfg": {"sens": num(p["sensitivity"]), "L": L, "K": p["k"], "n0": p["n0"], "foldsrec": folds}, "ev": ev, "params": p,
            "script": [list(s) for s in script], "seed": seed}


def random_script(rng, n):
    out = []
    for _ in range(n):
        r = rng.random()
        if r < 0.45:
            out.append(("update", int(rng.random() < 0.5)))
        elif r < 0.47:
            out.append(("setref",))
        elif r < 0.5:
            out.append(("update2",))
        elif r < 0.9:
            out.append(("label", int(rng.random() < 0.5), int(rng.random() < 0.6)))
        elif r < 0.95:
            out.append(("label_badcols", 1, 1))
        else:
            out.append(("label2",))
    return out


def sabotage(trace, rng):
    ks = [k for k, e in enumerate(trace["ev"]) if e["op"] != "set_reference" and k > 0]
    k = rng.choice(ks)
    e = trace["ev"][k]
    w = rng.choice(["state", "waiting", "cur", "total"])
    if w == "state":
        e["state"] = {"None": "warning", "warning": "drift", "drift": "None"}[e["state"]]
    elif w == "waiting":
        e["waiting"] = not e["waiting"]
    elif w == "cur":
        e["cur"] = num(float(e["cur"]) + 1e-3)
    else:
        e["total"] += 1
    return trace, k + 1, w
