"""Entry point: ./check Cxx --tier quick|thorough [--replay path]
exit 0 = property held on everything explored (KNOWN-FINDING lines allowed)
exit 1 = at least one `VIOLATION property=<id> replay=<path>` line
exit 2 = machinery failure (TLC crash, SANY error, vacuity, sabotage not rejected ...), never a VIOLATION line"""
import argparse
import importlib
import json
import os
import sys
import traceback
import warnings


def main():
    ap = argparse.ArgumentParser()
    ap.add_argument("pid")
    ap.add_argument("--tier", default=os.environ.get("VERIF_TIER", "quick"), choices=["quick", "thorough"])
    ap.add_argument("--replay")
    a = ap.parse_args()
    seed = int(os.environ.get("VERIF_SEED", "0") or 0)
    warnings.filterwarnings("ignore")
    import numpy as np
    np.seterr(all="ignore")
    from . import core, tlc
    pid = a.pid.upper()
    ctx = core.Ctx(pid, a.tier, seed)
    try:
        mod = importlib.import_module("harness.checks." + pid.lower())
        if a.replay:
            with open(a.replay) as f:
                rc = mod.replay(ctx, json.load(f)["bundle"])
        else:
            rc = mod.run(ctx)
    except tlc.MachineryError as e:
        print("MACHINERY-FAILURE %s: %s" % (pid, e))
        rc = 2
    except Exception:
        if isinstance(sys.exc_info()[1], core.WorkerError):       # raised in a worker process: classified there
            w = sys.exc_info()[1]
            ename, etext, tb, in_impl, inner, kind_ok = w.name, w.text, w.tb, w.in_impl, w.inner, w.kind_ok
        else:
            ename, etext, tb, in_impl, inner, kind_ok = core.describe_exception()
        frames = True
        if in_impl:
            # the code under test raised on a call the driver considers legal: that is a finding about the code, not about the machinery
            ctx.violation("the implementation raised %s during a legal call sequence: %s" % (ename, etext),
                          {"stage": "driver", "traceback": tb[-3000:], "replay": None})
            ctx.finish()
            rc = 1
        elif frames and os.path.basename(inner).startswith(("drv_", "product.py", "lifecycle.py")) and kind_ok:
            # a driver failed while READING what the implementation reported (a None / wrongly shaped / wrongly typed public output).  The drivers
            # are deterministic and read the unchanged code's outputs without error, so this is an observable deviation of the code under test
            ctx.violation("a public output of the implementation could not be interpreted by the driver (%s: %s)"
                          % (ename, etext), {"stage": "driver", "traceback": tb[-3000:], "replay": None})
            ctx.finish()
            rc = 1
        else:
            print(tb)
            print("MACHINERY-FAILURE %s: unexpected exception in the harness" % pid)
            rc = 2
    finally:
        tlc.cleanup()
    print("%s %s tier=%s seed=%d: %s (traces=%d events=%d tlc_states=%d wall=%.0fs)" % (
        pid, "HELD" if rc == 0 else ("VIOLATED" if rc == 1 else "MACHINERY-FAILURE"), a.tier, seed,
        "exit %d" % rc, ctx.traces, ctx.events, ctx.states, __import__("time").time() - ctx.t0))
    sys.exit(rc)


if __name__ == "__main__":
    main()
