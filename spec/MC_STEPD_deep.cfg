SPECIFICATION Spec
CONSTANT Depth = 15
CONSTRAINT Bound
INVARIANT TypeOK
INVARIANT NoEarly
INVARIANT RecsRange
INVARIANT WindowIs
INVARIANT RecsRun
INVARIANT OnlyDown
INVARIANT TwinAgree
PROPERTY LCSpec
PROPERTY QuietIsStep
CHECK_DEADLOCK FALSE
