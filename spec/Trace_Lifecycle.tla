--------------------------- MODULE Trace_Lifecycle ---------------------------
(* C01 - traces of all 15 real detector classes validated against the lifecycle contract
   (module Lifecycle, instantiated with the per-detector table carried in the trace's cfg).
   Projection: total, since, state, recs ( <<-2,-2>> when the class has no retraining_recs ).
   `warm` - "the documented minimum amount of data of the current epoch has been seen" - is computed
   HERE from the specification's own counters, the detector's documented parameters (cfg.a, cfg.b ...)
   and, where the documentation counts something the counters do not show, a fact the harness
   counts from the inputs it fed (errors in the epoch, test batches of the epoch, labels given, the
   window length before the cut). *)
EXTENDS Integers, Sequences, TLC, TraceLib
VARIABLES cfg, total, since, state, recs, warm
tvars == <<cfg, total, since, state, recs, warm, tid, l>>
LC == INSTANCE Lifecycle WITH ltab <- [restart |-> cfg.restart, incs |-> { cfg.incs[i] : i \in 1..Len(cfg.incs) },
                                       hasrecs |-> cfg.hasrecs, epochbound |-> cfg.epochbound, refrestart |-> cfg.refrestart]
Init == /\ tid \in 1..NTr /\ l = 1 /\ cfg = Traces[tid].cfg
        /\ total = 0 /\ since = 0 /\ state = "None" /\ recs = <<-1, -1>> /\ warm = FALSE
(* the documented warm-up rule of each detector family; s, t: the counters AFTER the call *)
Warm(s, t, f) ==
  CASE cfg.kind = "burn"   -> s > cfg.a                                   \* PageHinkley, CUSUM: after burn_in samples
    [] cfg.kind = "nthr"   -> s >= cfg.a                                  \* DDM: n_threshold samples
    [] cfg.kind = "errs"   -> f.errs >= cfg.a /\ f.errs >= 1              \* EDDM: n_threshold errors
    [] cfg.kind = "win2"   -> s >= 2 * cfg.a                              \* STEPD: two full windows
    [] cfg.kind = "lfr"    -> s > cfg.a /\ s % cfg.b = 0                  \* LFR: burn_in, then every subsample-th sample
    [] cfg.kind = "adwin"  -> t % cfg.a = 0 /\ f.w > cfg.b                \* ADWIN: check schedule and minimum window
    [] cfg.kind = "kdqs"   -> s >= cfg.a /\ (s - cfg.a + 1) * cfg.c > cfg.b * cfg.a   \* W test samples, then > (b/c) * W in a row
    [] cfg.kind = "batch1" -> s >= 1                                      \* KdqTreeBatch, NNDVI: the first test batch
    [] cfg.kind = "hdm"    -> f.nb >= cfg.a                               \* HDDDM / CDBD: the detect_batch-th test batch of the epoch
    [] cfg.kind = "pcacd"  -> s > (IF t = s THEN 2 * cfg.a ELSE cfg.a) /\ (t - 1) % cfg.b = 0
    [] cfg.kind = "md3"    -> TRUE                                        \* warning from the first update on
Proj == /\ Chk("total", total', Ev.total) /\ Chk("since", since', Ev.since) /\ Chk("state", state', Ev.state)
        /\ (~cfg.hasrecs \/ Chk("recs", recs', Ev.recs))
BindW(w) == /\ total' = Ev.total /\ since' = Ev.since /\ state' = Ev.state
        /\ recs' = (IF cfg.hasrecs THEN Ev.recs ELSE recs) /\ cfg' = cfg
        /\ warm' = w
Bind == BindW(Warm(Ev.since, Ev.total, Ev.facts))
Explained(A, name) == ChkB(name, A, <<"before", total, since, state, recs, "after", Ev.total, Ev.since, Ev.state, Ev.recs, "warm", warm'>>)
(* KdqTreeStreaming: the reference window is the first W samples of the epoch - the since-reset counter restarts with exactly that sample *)
RefPoint == IF cfg.kind = "kdqs" THEN ChkB("the reference window completes with the W-th sample of the epoch (since-reset restarts there and only there)",
                                          (Ev.facts.epochn = cfg.a) <=> (Ev.since = 0), <<"sample of the epoch", Ev.facts.epochn, "W", cfg.a, "since", Ev.since>>)
            ELSE TRUE
Upd == /\ More /\ Ev.op = "update" /\ Bind /\ RefPoint
       /\ Explained(LC!Accepted \/ LC!AcceptedRefComplete, "accepted update follows the lifecycle contract") /\ Adv
Ref == /\ More /\ Ev.op = "set_reference" /\ Bind /\ Explained(LC!SetReference, "set_reference starts an epoch") /\ Adv
Rst == /\ More /\ Ev.op = "reset" /\ Bind /\ Explained(LC!UserReset, "reset() restarts the epoch") /\ Adv
Bad == /\ More /\ Ev.op = "refused"
       /\ \/ BindW(warm) /\ Explained(LC!Rejected, "a refused call changes nothing")
          \/ state = "drift" /\ Ev.state = "None" /\ BindW(FALSE)         \* the pending automatic reset already happened
                             /\ Explained(LC!UserReset, "a call refused right after a drift may only have performed the pending reset")
       /\ Adv
(* MD3: a label call is not an update; only the one completing the oracle set may report drift *)
Lab == /\ More /\ Ev.op = "label" /\ Bind
       /\ Explained(total' = total /\ since' = since /\ state' \in {"None", "drift"}
                    /\ (state' = "drift" => Ev.facts.labels = cfg.a), "label call") /\ Adv
Next == Upd \/ Ref \/ Rst \/ Bad \/ Lab
Spec == Init /\ [][Next]_tvars
=============================================================================
