------------------------------ MODULE MC_Adwin ------------------------------
(* All input sequences over {0, 10} up to Depth for every configuration in Configs. *)
EXTENDS Adwin, TLC
CONSTANTS Depth
VARIABLES wadd      \* history: window length right after the sample was added (before any cut)
vars == <<adwinvars, wadd>>
Configs == { [delta |-> d, M |-> m, T |-> t, wthr |-> w, sthr |-> s, cons |-> cb] :
               d \in {"1.0", "0.3", "0.05"}, m \in {1, 2}, t \in {1, 2, 4}, w \in {2, 3}, s \in {1, 2},
               cb \in {TRUE, FALSE} }
Init == (\E c \in Configs : InitWith(c)) /\ wadd = 0
UpdateKeep == \E x \in {"0.0", "10.0"} : Step(x) /\ wadd' = Len(win) + 1 /\ st' = "None"
UpdateCut  == \E x \in {"0.0", "10.0"} : Step(x) /\ wadd' = Len(win) + 1 /\ st' = "drift"
Next == UpdateKeep \/ UpdateCut
Spec == Init /\ [][Next]_vars
Bound == TLCGet("level") <= Depth

LC == INSTANCE Lifecycle WITH ltab <- [restart |-> 1, incs |-> {1}, hasrecs |-> TRUE, epochbound |-> FALSE, refrestart |-> FALSE],
                              state <- st, warm <- (total % cfg.T = 0 /\ wadd > cfg.wthr)
LCSpec == LC!Spec
TypeOK == LC!TypeOK /\ st # "warning"
NoEarly == LC!NoEarly
(* exponential-histogram layout: bucket sizes add up to the window, no row above max_buckets, no empty top row *)
LayoutOK == /\ Layout
            /\ \A i \in 1..Len(cnt) : cnt[i] >= 0 /\ cnt[i] <= cfg.M
            /\ (Len(cnt) > 1 => cnt[Len(cnt)] > 0)
(* W grows by one per update and shrinks only in an update that reports drift *)
GrowOrCut == [][ \/ Len(win') = Len(win) + 1 /\ st' = "None"
                 \/ Len(win') <= Len(win) /\ st' = "drift" ]_vars
(* after a scheduled check no admissible split definitely exceeds epsilon-cut *)
NoCutLeft == (total % cfg.T = 0 /\ wadd > cfg.wthr) => ~(1 \in Verdicts(win, cnt))
RecsWindow == /\ st = "drift" => recs = <<total - Len(win), total - 1>>
              /\ st = "None" => recs = NoRecs
(* every cut removes whole oldest buckets: what remains is a suffix of the inputs *)
==========================================================================
