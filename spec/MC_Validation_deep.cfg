SPECIFICATION Spec
CONSTANT Depth = 6
CONSTRAINT Bound
INVARIANT Enforced
INVARIANT MemoryMeaning
INVARIANT Counted
INVARIANT NoHarm
PROPERTY RejectIsNoOp
CHECK_DEADLOCK FALSE
