SPECIFICATION Spec
CONSTANT Depth = 9
CONSTRAINT Bound
INVARIANT TypeOK
INVARIANT NoEarly
INVARIANT CellSum
INVARIANT Untracked
INVARIANT NothingTracked
INVARIANT RRange
PROPERTY LCSpec
PROPERTY CellMap
PROPERTY ChangedOnly
CHECK_DEADLOCK FALSE
