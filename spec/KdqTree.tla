------------------------------ MODULE KdqTree ------------------------------
(* C08 - the kdq-tree partitioner (Dasu et al. 2006) as menelaus documents it.
   Data are sequences of points with INTEGER coordinates (the drivers feed integer-valued data, so
   every quantity of the construction is exact: the midpoint min + ptp/2 is compared through
   2*x <= min + max).  Ids of fills are positions in the sequence IDS (1 = "build").

   node  == [leaf |-> TRUE,  cnt |-> <<c_1..c_k>>]                         -1 = id never filled
          | [leaf |-> FALSE, cnt, axis (0-based), mid2 (= min+max = 2*midpoint), lo, hi]        *)
EXTENDS Integers, Sequences, FiniteSets, FiniteSetsExt, Num
NIds == 3          \* "build", and two fill ids

SeqMin(q, a) == Min({ q[i][a] : i \in 1..Len(q) })
SeqMax(q, a) == Max({ q[i][a] : i \in 1..Len(q) })
Dims(q) == Len(q[1])
Values(q) == UNION { { q[i][a] : a \in 1..Dims(q) } : i \in 1..Len(q) }
OnlyCnt(n) == [i \in 1..NIds |-> IF i = 1 THEN n ELSE -1]

(* minimum cell sizes: int(lbound * ptp) per axis over the whole data, lbound = lbnum/lbden *)
MinCuts(q, lbnum, lbden) == [a \in 1..Dims(q) |-> (lbnum * (SeqMax(q, a) - SeqMin(q, a))) \div lbden]

RECURSIVE Build(_, _, _, _)
Build(q, ub, mincut, depth) ==
  LET a    == (depth % Dims(q)) + 1
      mn   == SeqMin(q, a)
      mx   == SeqMax(q, a)
      lo   == SelectSeq(q, LAMBDA p : 2 * p[a] <= mn + mx)
      hi   == SelectSeq(q, LAMBDA p : 2 * p[a] > mn + mx)
  IN IF Len(q) <= ub \/ Cardinality(Values(q)) <= ub \/ (mx - mn) <= 2 * mincut[a]
       THEN [leaf |-> TRUE, cnt |-> OnlyCnt(Len(q))]
       ELSE [leaf |-> FALSE, cnt |-> OnlyCnt(Len(q)), axis |-> a - 1, mid2 |-> mn + mx,
             lo |-> Build(lo, ub, mincut, depth + 1), hi |-> Build(hi, ub, mincut, depth + 1)]

(* fill: route every point to the unique leaf whose cell contains it; add, or overwrite when reset
   is requested or the id is new *)
NewCnt(c, id, n, reset) == [c EXCEPT ![id] = IF reset \/ c[id] = -1 THEN n ELSE c[id] + n]
RECURSIVE Fill(_, _, _, _)
Fill(t, q, id, reset) ==
  IF t.leaf THEN [t EXCEPT !.cnt = NewCnt(t.cnt, id, Len(q), reset)]
  ELSE LET a == t.axis + 1 IN
       [t EXCEPT !.cnt = NewCnt(t.cnt, id, Len(q), reset),
                 !.lo = Fill(t.lo, SelectSeq(q, LAMBDA p : 2 * p[a] <= t.mid2), id, reset),
                 !.hi = Fill(t.hi, SelectSeq(q, LAMBDA p : 2 * p[a] > t.mid2), id, reset)]
RECURSIVE SetAll(_, _, _)
SetAll(t, id, v) == IF t.leaf THEN [t EXCEPT !.cnt[id] = v]
                    ELSE [t EXCEPT !.cnt[id] = v, !.lo = SetAll(t.lo, id, v), !.hi = SetAll(t.hi, id, v)]

(* leaves left to right (lower half first) *)
RECURSIVE Leaves(_)
Leaves(t) == IF t.leaf THEN <<t>> ELSE Leaves(t.lo) \o Leaves(t.hi)
RECURSIVE LeafCounts(_, _)
LeafCounts(t, id) == IF t.leaf THEN <<t.cnt[id]>> ELSE LeafCounts(t.lo, id) \o LeafCounts(t.hi, id)
RECURSIVE NLeaves(_)
NLeaves(t) == IF t.leaf THEN 1 ELSE NLeaves(t.lo) + NLeaves(t.hi)
RECURSIVE NNodes(_)
NNodes(t) == IF t.leaf THEN 1 ELSE 1 + NNodes(t.lo) + NNodes(t.hi)
RECURSIVE SumInts(_)
SumInts(q) == IF q = <<>> THEN 0 ELSE Head(q) + SumInts(Tail(q))

(* empirical distribution with the +0.5 correction, and Kullback-Leibler divergence *)
(* (operator parameters are evaluated once by TLC, LET definitions at every use - hence the helper operators) *)
DistnD(c, den) == [i \in 1..Len(c) |-> NDiv(NAdd(c[i], "0.5"), den)]
Distn(c) == DistnD(c, NAdd(SumInts(c), NDiv(Len(c), 2)))
KLpq(p, q) == NSumSeq([i \in 1..Len(p) |-> NMul(p[i], NLn(NDiv(p[i], q[i])))])
KL(c1, c2) == KLpq(Distn(c1), Distn(c2))
KLDist(t, id1, id2) == KL(LeafCounts(t, id1), LeafCounts(t, id2))

(* flattened view (to_plotly_dataframe): every node once, in preorder, with the row index of its
   parent (0 for the root), depth, reference count and count difference; side = how the node
   hangs under its parent ("root", "le", "gt"), paxis = the parent's split axis (-1 for the root) *)
RECURSIVE Flatten(_, _, _, _, _, _, _)
Flatten(t, id1, id2, parent, depth, side, paxis) ==
  LET me == [parent |-> parent, depth |-> depth, cell |-> t.cnt[id1], side |-> side, paxis |-> paxis,
             diff |-> IF id2 = 0 THEN 0 ELSE (IF t.cnt[id2] = -1 THEN 0 ELSE t.cnt[id2]) - t.cnt[id1]]
  IN <<me>>
(* rows are numbered in the order produced; parent row index is carried by the caller *)
RECURSIVE FlatRows(_, _, _, _, _, _, _, _)
FlatRows(t, id1, id2, parent, depth, side, paxis, next) ==    \* next = row index this node gets
  LET me == Flatten(t, id1, id2, parent, depth, side, paxis)
  IN IF t.leaf THEN me
     ELSE me \o FlatRows(t.lo, id1, id2, next, depth + 1, "le", t.axis, next + 1)
             \o FlatRows(t.hi, id1, id2, next, depth + 1, "gt", t.axis, next + 1 + NNodes(t.lo))
PlotlyAll(t, id1, id2) == IF t.cnt[id1] = -1 THEN <<>>      \* an id that was never filled has no view
                          ELSE FlatRows(t, id1, id2, 0, 0, "root", -1, 1)
(* max_depth keeps the rows down to that depth (0: all of them).  In a preorder listing the parent of a row is the
   nearest earlier row one level up: the parent pointers are re-derived for the rows that remain *)
KeepDepth(rows, maxd) == IF maxd = 0 THEN rows ELSE SelectSeq(rows, LAMBDA r : r.depth <= maxd)
ParentIn(f, k) == IF f[k].depth = 0 THEN 0 ELSE Max({j \in 1..(k - 1) : f[j].depth = f[k].depth - 1})
Reparent(f) == [k \in 1..Len(f) |-> [f[k] EXCEPT !.parent = ParentIn(f, k)]]
PlotlyD(t, id1, id2, maxd) == Reparent(KeepDepth(PlotlyAll(t, id1, id2), maxd))
Plotly(t, id1, id2) == PlotlyD(t, id1, id2, 0)
(* Kulldorff spatial scan statistic of a node: divergence between the two-cell (node vs rest) distributions *)
KSS(cref, ctest, refmax, testmax) == KL(<<cref, refmax - cref>>, <<ctest, testmax - ctest>>)
SeqMaxInt(q) == Max({ q[i] : i \in 1..Len(q) })

(* ---- structural properties (C08), stated on a tree ---- *)
RECURSIVE Nodes(_)
Nodes(t) == IF t.leaf THEN {t} ELSE {t} \cup Nodes(t.lo) \cup Nodes(t.hi)
ChildrenSum(t) == \A n \in Nodes(t) : ~n.leaf => \A id \in 1..NIds :
                     (n.cnt[id] = -1 /\ n.lo.cnt[id] = -1 /\ n.hi.cnt[id] = -1) \/ n.cnt[id] = n.lo.cnt[id] + n.hi.cnt[id]
StopRule(t, ub) == \A n \in Nodes(t) : n.cnt[1] <= ub => n.leaf
(* the leaf a point falls into *)
RECURSIVE LeafIndex(_, _, _)
LeafIndex(t, p, base) == IF t.leaf THEN base
                         ELSE IF 2 * p[t.axis + 1] <= t.mid2 THEN LeafIndex(t.lo, p, base)
                         ELSE LeafIndex(t.hi, p, base + NLeaves(t.lo))
=============================================================================
