-------------------------- MODULE Trace_KdqDetector --------------------------
(* Trace validation for KdqTreeStreaming / KdqTreeBatch on integer data.  ev.c = [crit, lo, hi]:
   the critical value the detector holds after the call ("NA" if unreadable) and, when the call
   (re)built a reference, the independently computed bracket for it. *)
EXTENDS KdqDetector, TraceLib
tvars == <<kdvars, tid, l>>
Init == /\ tid \in 1..NTr /\ l = 1 /\ InitWith(Traces[tid].cfg)
Counters == /\ Chk("total", total', Ev.total) /\ Chk("since", since', Ev.since) /\ Chk("state", st', Ev.state)
DistOK(d) == IF Ev.dist = "NA" \/ d = "None" THEN TRUE ELSE ChkB("divergence", Close(d, Ev.dist), <<d, Ev.dist>>)
CritOK == IF Ev.c.crit = "NA" THEN TRUE ELSE Chk("critical value", crit', Ev.c.crit)
(* the detector's own to_plotly_dataframe(): the reference tree with the test counts filed so far (taken at some of the updates) *)
ViewOK == IF ~Ev.viewed THEN TRUE ELSE IF tree' = NoTree THEN TRUE ELSE Chk("detector-level plotly view", PlotlyD(tree', 1, 2, 0), Ev.view)
SUpd == /\ More /\ Ev.op = "update" /\ dcfg.kind = "stream"
        /\ StreamStep(Ev.x, Ev.c) /\ Counters /\ DistOK(dist') /\ CritOK /\ ViewOK /\ Adv
SRst == /\ More /\ Ev.op = "reset" /\ StreamReset /\ Counters /\ Adv      \* both kinds: reset() drops the reference (a batch detector then takes its next batch as the reference)
BRef == /\ More /\ Ev.op = "set_reference" /\ SetReference(Ev.data, Ev.c) /\ Counters /\ CritOK /\ Adv
BUpd == /\ More /\ Ev.op = "update" /\ dcfg.kind = "batch"
        /\ BatchStep(Ev.data, Ev.c0) /\ Counters /\ DistOK(dist') /\ CritOK /\ ViewOK /\ Adv
Diag == /\ Note("critical value outside the bracket of the documented (1 - alpha) bootstrap quantile",
                More /\ Ev.op # "reset" /\ Ev.c.lo # "None" /\ ~BracketOK(Ev.c), Ev.c)
        /\ Note("critical value (of the re-built reference) outside its bracket",
                More /\ Ev.op = "update" /\ dcfg.kind = "batch" /\ Ev.c0.lo # "None" /\ ~BracketOK(Ev.c0), Ev.c0)
Next == Diag /\ (SUpd \/ SRst \/ BRef \/ BUpd)
Spec == Init /\ [][Next]_tvars
=============================================================================
