------------------------------ MODULE MC_EDDM ------------------------------
(* All binary outcome sequences up to Depth, all Configs; twin restarted after every drift (C02). *)
EXTENDS EDDM, TLC
CONSTANTS Depth
VARIABLES hs, errs,   \* states reported / number of errors in the current epoch (history variables)
          bcfg, btotal, bsince, bst, brecs, bnerr, bcurr, bdmean, bdstd, bmaxnum, bfresh, off
Configs == { [nthr |-> n, wt |-> p[1], dt |-> p[2]] :
               n \in {0, 1, 2, 3}, p \in {<<"0.95", "0.9">>, <<"0.99", "0.6">>, <<"1.0", "1.0">>} }
B == INSTANCE EDDM WITH cfg <- bcfg, total <- btotal, since <- bsince, st <- bst, recs <- brecs,
                        nerr <- bnerr, curr <- bcurr, dmean <- bdmean, dstd <- bdstd, maxnum <- bmaxnum
bvars == <<bcfg, btotal, bsince, bst, brecs, bnerr, bcurr, bdmean, bdstd, bmaxnum>>
vars == <<eddmvars, hs, errs, bvars, bfresh, off>>
Init == /\ \E c \in Configs : InitWith(c) /\ B!InitWith(c)
        /\ hs = <<>> /\ errs = 0 /\ bfresh = FALSE /\ off = 0
Update == \E c \in {0, 1} :
            /\ (st = "drift" => bfresh)
            /\ Step(c) /\ B!Step(c)
            /\ hs' = (IF st = "drift" THEN <<>> ELSE hs) \o <<st'>>
            /\ errs' = (IF st = "drift" THEN 0 ELSE errs) + c
            /\ bfresh' = FALSE /\ off' = off
TwinRestart == /\ st = "drift" /\ ~bfresh
               /\ bcfg' = cfg /\ btotal' = 0 /\ bsince' = 0 /\ bst' = "None" /\ brecs' = NoRecs
               /\ bnerr' = 0 /\ bcurr' = 0 /\ bdmean' = 0 /\ bdstd' = 0 /\ bmaxnum' = 0
               /\ bfresh' = TRUE /\ off' = total
               /\ UNCHANGED <<eddmvars, hs, errs>>
UReset == /\ st # "drift" /\ total > 0 /\ Reset /\ B!Reset /\ hs' = <<>> /\ errs' = 0 /\ UNCHANGED <<bfresh, off>>
Next == Update \/ TwinRestart \/ UReset
Spec == Init /\ [][Next]_vars
Bound == TLCGet("level") <= Depth

LC == INSTANCE Lifecycle WITH ltab <- [restart |-> 1, incs |-> {1}, hasrecs |-> TRUE, epochbound |-> TRUE, refrestart |-> FALSE],
                              state <- st, warm <- (errs >= cfg.nthr /\ errs >= 1)
LCSpec == LC!Spec
TypeOK == LC!TypeOK /\ nerr = errs
NoEarly == LC!NoEarly
RecsRange == LC!RecsRange
FirstAlarm == IF \E i \in 1..Len(hs) : hs[i] # "None"
                THEN CHOOSE i \in 1..Len(hs) : hs[i] # "None" /\ \A j \in 1..(i-1) : hs[j] = "None"
                ELSE 0
RecsFirstWarn == /\ (recs[1] # -1) <=> (FirstAlarm # 0)
                 /\ recs[1] # -1 => recs[1] = (total - since) + FirstAlarm - 1
                 /\ (recs[2] # -1) <=> (st = "drift")
                 /\ Len(hs) = since
Shift(rr) == <<IF rr[1] = -1 THEN -1 ELSE rr[1] + off, IF rr[2] = -1 THEN -1 ELSE rr[2] + off>>
TwinAgree == ~bfresh => /\ bst = st /\ bsince = since /\ btotal + off = total /\ Shift(brecs) = recs
                        /\ bnerr = nerr /\ bcurr = curr /\ bdmean = dmean /\ bdstd = dstd /\ bmaxnum = maxnum
==========================================================================
