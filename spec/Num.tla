------------------------------- MODULE Num -------------------------------
(* Real arithmetic for the detector specifications.

   Meaning: every operator below is the usual operation on real numbers (extended with
   +-Infinity and an unordered NaN, as IEEE-754 has them).  A number is written either as a TLA+
   integer or as a decimal string ("0.25", "Infinity").  TLC cannot evaluate reals, so for TLC the
   operators are overridden by Num.class (compiled from Num.java, beside this file): the
   arguments are parsed as IEEE doubles, the operation is performed in double arithmetic and the
   result is returned as the shortest decimal string that round-trips.  The bodies given here are
   only placeholders that make the module self-contained for SANY; they are never evaluated.

   Comparisons are NOT ordinary: NCmp is four-valued so that a specification never commits to
   an outcome the floating-point evaluation cannot justify:
       -1  a < b        1  a > b        0  a and b are the same double (exact tie)
        2  ambiguous: a # b but |a-b| <= 1e-9 * max(1,|a|,|b|)
        3  unordered (a NaN is involved): every ordinary comparison is FALSE
   The *Set operators turn that into the set of outcomes a specification must allow. *)
EXTENDS Integers, Sequences

NAdd(a, b)  == CHOOSE x \in STRING : TRUE
NSub(a, b)  == CHOOSE x \in STRING : TRUE
NMul(a, b)  == CHOOSE x \in STRING : TRUE
NDiv(a, b)  == CHOOSE x \in STRING : TRUE
NSqrt(a)    == CHOOSE x \in STRING : TRUE
NLn(a)      == CHOOSE x \in STRING : TRUE
NExp(a)     == CHOOSE x \in STRING : TRUE
NAbs(a)     == CHOOSE x \in STRING : TRUE
NNeg(a)     == CHOOSE x \in STRING : TRUE
NNum(a)     == CHOOSE x \in STRING : TRUE      \* canonical string of an int or string number
NMax(a, b)  == CHOOSE x \in STRING : TRUE
NMin(a, b)  == CHOOSE x \in STRING : TRUE
NFloor(a)   == CHOOSE x \in Int : TRUE
NIsNaN(a)   == CHOOSE x \in BOOLEAN : TRUE
NCmp(a, b)  == CHOOSE x \in {-1, 0, 1, 2, 3} : TRUE
NClose(a, b, rel) == CHOOSE x \in BOOLEAN : TRUE
NSumSeq(q)  == CHOOSE x \in STRING : TRUE      \* left-to-right sum of a sequence of numbers
NMeanSeq(q) == CHOOSE x \in STRING : TRUE      \* arithmetic mean of a non-empty sequence
NPopStdSeq(q) == CHOOSE x \in STRING : TRUE    \* population standard deviation of a non-empty sequence
NPrefixSeq(q) == CHOOSE x \in Seq(STRING) : TRUE \* sequence of prefix sums, same length as q
NPopVarSeq(q) == CHOOSE x \in STRING : TRUE    \* population variance of a non-empty sequence
NRound(a, n) == CHOOSE x \in STRING : TRUE     \* a rounded to n decimals as numpy rounds: rint(a * 10^n) / 10^n
NSign(a)    == CHOOSE x \in {-1, 0, 1, 2} : TRUE \* exact sign; 2 for NaN

(* outcome sets: which truth values of the comparison must a specification admit *)
GtSet(a, b) == LET c == NCmp(a, b) IN IF c = 1 THEN {TRUE} ELSE IF c = 2 THEN {TRUE, FALSE} ELSE {FALSE}
GeSet(a, b) == LET c == NCmp(a, b) IN IF c \in {0, 1} THEN {TRUE} ELSE IF c = 2 THEN {TRUE, FALSE} ELSE {FALSE}
LtSet(a, b) == LET c == NCmp(a, b) IN IF c = -1 THEN {TRUE} ELSE IF c = 2 THEN {TRUE, FALSE} ELSE {FALSE}
LeSet(a, b) == LET c == NCmp(a, b) IN IF c \in {-1, 0} THEN {TRUE} ELSE IF c = 2 THEN {TRUE, FALSE} ELSE {FALSE}
(* definite comparisons (used in invariants, where ambiguity must not produce an alarm) *)
DefGt(a, b) == NCmp(a, b) = 1
DefLt(a, b) == NCmp(a, b) = -1
NEq(a, b)   == NCmp(a, b) = 0
Close(a, b) == NClose(a, b, "1e-7")
INF == "Infinity"
==========================================================================
