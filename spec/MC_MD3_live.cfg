SPECIFICATION FairSpec
CONSTANT Depth = 0
CONSTRAINT TotalBound
PROPERTY Progress
CHECK_DEADLOCK FALSE
