SPECIFICATION Spec
CONSTANT G = 3
CONSTANT NP = 4
CONSTANT NF = 1
CONSTANT UBs = {1, 2}
CONSTANT Dim = 2
INVARIANT Partition
INVARIANT NoSmallSplit
INVARIANT Conservation
INVARIANT LeafTotals
INVARIANT CountsAreRouting
INVARIANT Refill
INVARIANT AxisCycles
INVARIANT DistnOK
INVARIANT KLNonNeg
INVARIANT FlatOK
PROPERTY FreshLeaves
CHECK_DEADLOCK FALSE
