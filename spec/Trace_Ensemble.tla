---------------------------- MODULE Trace_Ensemble ----------------------------
(* Trace validation for StreamingEnsemble / BatchEnsemble.  Each event carries, after one call on
   the real ensemble: the projection of every member (ev.m), of an independently updated real twin
   of every member fed only the columns its selector picks (ev.t), the ensemble's views
   (drift_states, retraining_recs) and its own state and counters. *)
EXTENDS Ensemble, TraceLib
tvars == <<ensvars, tid, l>>
Init == /\ tid \in 1..NTr /\ l = 1 /\ InitWith(Traces[tid].cfg)
N == ecfg.n
Own == /\ Chk("ens.state", estate', Ev.state) /\ Chk("ens.total", etotal', Ev.total) /\ Chk("ens.since", esince', Ev.since)
(* each member is in exactly the state its lone twin is in, and the views report the members *)
AsIfAlone == /\ \A i \in 1..N : Chk("member=twin", Ev.m[i], Ev.t[i])
             /\ \A i \in 1..N : Chk("drift_states view", Ev.vstates[i], Ev.m[i].state)
             /\ \A i \in 1..N : Chk("retraining_recs view", Ev.vrecs[i], Ev.m[i].recs)
Upd == /\ More /\ Ev.op = "update"
       /\ Update([i \in 1..N |-> Ev.m[i].state])
       /\ AsIfAlone /\ Own
       /\ (ecfg.kind # "confirmed" \/ Chk("election counters", ecnt', Ev.ecnt))
       /\ Adv
Rst == /\ More /\ Ev.op = "reset"
       /\ Reset
       /\ \A i \in 1..N : Chk("member.state", mstate'[i], Ev.m[i].state)
       /\ AsIfAlone /\ Own /\ Adv
(* set_reference reaches every member (twins got the same reference); the ensemble's own state is untouched *)
SetRef == /\ More /\ Ev.op = "set_reference"
          /\ AsIfAlone
          /\ mstate' = [i \in 1..N |-> Ev.m[i].state]
          /\ UNCHANGED <<ecfg, mtotal, msince, estate, etotal, esince, ecnt>>
          /\ Chk("ens.total", etotal', Ev.total) /\ Chk("ens.since", esince', Ev.since)
          /\ Adv
(* an update every member refuses (several observations at once): the first member raises, nothing is counted - neither by the members nor
   by the ensemble itself -, and no state changes except that the first member may have performed its pending restart before it validated *)
Refused == /\ More /\ Ev.op = "refused"
           /\ AsIfAlone
           /\ mstate' = [i \in 1..N |-> Ev.m[i].state]
           /\ UNCHANGED <<ecfg, mtotal, msince, estate, etotal, esince, ecnt>>
           /\ Own /\ Adv
(* the caller replaces a member object (ensemble.detectors[key] = new detector, e.g. after retraining): the ensemble's own state is untouched,
   and from the next update on the election is held over the members that are in the dictionary now *)
Replace == /\ More /\ Ev.op = "replace"
           /\ AsIfAlone
           /\ mstate' = [i \in 1..N |-> Ev.m[i].state]
           /\ UNCHANGED <<ecfg, mtotal, msince, estate, etotal, esince, ecnt>>
           /\ Own /\ Adv
Next == Upd \/ Rst \/ SetRef \/ Refused \/ Replace
Spec == Init /\ [][Next]_tvars
=============================================================================
