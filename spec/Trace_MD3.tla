------------------------------ MODULE Trace_MD3 ------------------------------
(* Trace validation for MD3 scripts.  Projection (all public): drift_state, waiting_for_oracle,
   len(oracle_data), curr_margin_density, reference_distribution, total_updates, updates_since_reset. *)
EXTENDS MD3, TraceLib
tvars == <<md3vars, tid, l>>
TCfg(c) == [sens |-> c.sens, L |-> c.L, K |-> c.K,
            folds |-> [n \in {c.n0, c.L} |-> c.foldsrec[ToString(n)]]]     \* JSON keys are strings
Init == /\ tid \in 1..NTr /\ l = 1 /\ InitWith(TCfg(Traces[tid].cfg))
NumChk(name, a, b) == ChkB(name, Close(a, b), <<a, b>>)
Proj == /\ Chk("state", st', Ev.state) /\ Chk("waiting_for_oracle", mode' = "Waiting", Ev.waiting)
        /\ Chk("len(oracle_data)", Len(oracle'), Ev.noracle)
        /\ Chk("total", total', Ev.total) /\ Chk("since", since', Ev.since)
        /\ Chk("reference len", refn', Ev.ref.n)
        /\ NumChk("curr_margin_density", cur', Ev.cur)
        /\ NumChk("md", md', Ev.ref.md) /\ NumChk("md_std", mdstd', Ev.ref.mdstd)
        /\ NumChk("acc", acc', Ev.ref.acc) /\ NumChk("acc_std", accstd', Ev.ref.accstd)
SetRef == /\ More /\ Ev.op = "set_reference" /\ SetReference(Ev.rows) /\ Proj /\ Adv
Upd == /\ More /\ Ev.op = "update" /\ Ev.raised = "None" /\ Update(Ev.m) /\ Proj /\ Adv
UpdRef == /\ More /\ Ev.op = "update" /\ Ev.raised = "ValueError" /\ UpdateRefused(Ev.nrows) /\ Proj /\ Adv
Lab == /\ More /\ Ev.op = "label" /\ Ev.raised = "None" /\ GiveLabel(Ev.m, Ev.c, Ev.newref) /\ Proj /\ Adv
LabRef == /\ More /\ Ev.op = "label" /\ Ev.raised = "ValueError" /\ LabelRefused(Ev.nrows, Ev.colsok) /\ Proj /\ Adv
Next == SetRef \/ Upd \/ UpdRef \/ Lab \/ LabRef
Spec == Init /\ [][Next]_tvars
=============================================================================
