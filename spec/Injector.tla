------------------------------- MODULE Injector -------------------------------
(* C20 - the drift injectors as pure operators on a matrix m (sequence of rows, each a sequence of
   numbers), a window [from, to) given 0-based as in the API (rows from+1 .. to in 1-based TLA+),
   and 1-based column positions.  Random injectors are specified by the relation between input and
   output that every run must satisfy. *)
EXTENDS Integers, Sequences, FiniteSets, Num
InWin(r, from, to) == r > from /\ r <= to            \* 1-based row r lies in the 0-based window [from, to)
NRows(m) == Len(m)
NCols(m) == IF m = <<>> THEN 0 ELSE Len(m[1])
MapWin(m, from, to, f(_)) == [r \in 1..Len(m) |-> IF InWin(r, from, to) THEN f(m[r]) ELSE m[r]]

Swap(m, from, to, c1, c2) ==
  MapWin(m, from, to, LAMBDA row : [c \in 1..Len(row) |-> IF c = c1 THEN row[c2] ELSE IF c = c2 THEN row[c1] ELSE row[c]])
LabelSwap(m, from, to, col, k1, k2) ==
  MapWin(m, from, to, LAMBDA row : [row EXCEPT ![col] = IF row[col] = k1 THEN k2 ELSE IF row[col] = k2 THEN k1 ELSE row[col]])
LabelJoin(m, from, to, col, k1, k2, new) ==
  MapWin(m, from, to, LAMBDA row : [row EXCEPT ![col] = IF row[col] = k1 \/ row[col] = k2 THEN new ELSE row[col]])
WinCol(m, from, to, col) == [i \in 1..(to - from) |-> m[from + i][col]]
ShiftDelta(m, from, to, col, factor, alpha) == NMul(NAdd(alpha, NMeanSeq(WinCol(m, from, to, col))), factor)
Shift(m, from, to, col, factor, alpha) ==
  IF to <= from THEN m
  ELSE MapWin(m, from, to, LAMBDA row : [row EXCEPT ![col] = NAdd(row[col], ShiftDelta(m, from, to, col, factor, alpha))])

(* frame: everything outside the window and outside the targeted columns is untouched *)
Frame(in, out, from, to, cols) ==
  /\ Len(out) = Len(in)
  /\ \A r \in 1..Len(in) : /\ Len(out[r]) = Len(in[r])
                           /\ \A c \in 1..Len(in[r]) : (~InWin(r, from, to) \/ c \notin cols) => out[r][c] = in[r][c]
(* Brownian noise: output - input on the window is a walk starting at x0 with steps of +-1/sqrt(steps) *)
WalkOK(in, out, from, to, col, x0) ==
  LET steps == to - from
      w == [i \in 1..steps |-> NSub(out[from + i][col], in[from + i][col])]
  IN steps <= 0 \/ ( /\ Close(w[1], x0)
                     /\ \A i \in 2..steps : Close(NAbs(NSub(w[i], w[i - 1])), NDiv(1, NSqrt(steps))) )
(* resampling: the window of the output consists of rows of the window of the input *)
FromWindow(in, out, from, to) ==
  \A r \in 1..Len(in) : InWin(r, from, to) => \E q \in 1..Len(in) : InWin(q, from, to) /\ out[r] = in[q]
(* feature cover: column col hidden, n = sample_size \div #groups rows from every group, groups in key order *)
DropCol(row, col) == [c \in 1..(Len(row) - 1) |-> IF c < col THEN row[c] ELSE row[c + 1]]
CoverOK(in, out, col, size, keys) ==      \* keys: the distinct values of column col in increasing order
  LET n == size \div Len(keys) IN
  /\ Len(out) = n * Len(keys)
  /\ \A g \in 1..Len(keys) : \A j \in 1..n :
       \E q \in 1..Len(in) : in[q][col] = keys[g] /\ out[(g - 1) * n + j] = DropCol(in[q], col)
=============================================================================
