-------------------------------- MODULE MC_Perm --------------------------------
(* C18 at model level: the three batch specifications use a batch only through multiset-valued
   operators.  For EVERY permutation of small batches (all 4! / 5! orders): the HDM feature distance,
   the kdq-tree built from / filled with the batch, and the NN partition of (reference, batch) are
   unchanged. *)
EXTENDS Integers, Sequences, FiniteSets, TLC, Num
H == INSTANCE HDM WITH hcfg <- [db |-> 3, stat |-> "stdev", sig |-> "1.0", div |-> "H", F |-> 1, ttab |-> <<>>], h <- [x |-> 0]
HJ == INSTANCE HDM WITH hcfg <- [db |-> 3, stat |-> "stdev", sig |-> "1.0", div |-> "JS", F |-> 1, ttab |-> <<>>], h <- [x |-> 0]
K == INSTANCE KdqTree
N == INSTANCE NNSP
Perms(n) == { f \in [1..n -> 1..n] : \A i, j \in 1..n : i # j => f[i] # f[j] }
Permute(q, f) == [i \in 1..Len(q) |-> q[f[i]]]
Ref1 == <<<<0>>, <<1>>, <<2>>, <<3>>, <<1>>, <<2>>, <<4>>, <<0>>, <<6>>>>
Batches1 == { <<<<1>>, <<1>>, <<5>>, <<3>>>>, <<<<9>>, <<0>>, <<4>>, <<4>>, <<2>>>>, <<<<0>>, <<7>>, <<7>>, <<1>>>> }
Ref2 == <<<<0, 0>>, <<1, 3>>, <<2, 2>>, <<3, 1>>, <<3, 3>>, <<0, 2>>>>
Batches2 == { <<<<1, 1>>, <<3, 0>>, <<2, 2>>, <<0, 3>>>>, <<<<3, 3>>, <<3, 3>>, <<0, 0>>, <<1, 2>>, <<2, 1>>>> }
HdmInv == \A b \in Batches1 : \A f \in Perms(Len(b)) :
            /\ H!FeatDists(Ref1, Permute(b, f), 3) = H!FeatDists(Ref1, b, 3)
            /\ HJ!FeatDists(Ref1, Permute(b, f), 3) = HJ!FeatDists(Ref1, b, 3)
            /\ H!FeatDists(Permute(b, f), Ref1, 2) = H!FeatDists(b, Ref1, 2)          \* permuted reference
KdqInv == \A b \in Batches2 : \A f \in Perms(Len(b)) :
            LET t == K!Build(Ref2, 1, K!MinCuts(Ref2, 0, 1), 0) IN
            /\ K!Fill(t, Permute(b, f), 2, TRUE) = K!Fill(t, b, 2, TRUE)
            /\ K!Build(Permute(b, f), 1, K!MinCuts(b, 0, 1), 0) = K!Build(b, 1, K!MinCuts(b, 0, 1), 0)
NnInv == \A b \in Batches2 : \A f \in Perms(Len(b)) :
            /\ N!DistinctSorted(Ref2, Permute(b, f)) = N!DistinctSorted(Ref2, b)
            /\ N!Member(N!DistinctSorted(Ref2, b), Permute(b, f)) = N!Member(N!DistinctSorted(Ref2, b), b)
VARIABLE x
Init == x = 0
Next == x < 1 /\ x' = x + 1
Spec == Init /\ [][Next]_x
=============================================================================
