---------------------------- MODULE Apa_Confirmed ----------------------------
(* Unbounded-in-time extra for C13 (Apalache, inductive invariant): for N members and ANY number of
   calls, ConfirmedElection's wait counters stay within 0..wait_time, and the counter / remaining-time
   correspondence holds.  IndInv /\ Next => IndInv' is discharged symbolically (length 1), Init => IndInv
   at length 0.  This lifts the call-depth bound of MC_Election; it is an addition to, not a
   replacement of, the TLC runs. *)
EXTENDS Integers
CONSTANTS
  \* @type: Int;
  N,
  \* @type: Int;
  Wait,
  \* @type: Int;
  Sens
VARIABLES
  \* @type: Int -> Int;
  cnt,
  \* @type: Int -> Int;
  left,
  \* @type: Str;
  verdict
Members == 1..N
States == {"None", "warning", "drift"}
CInit == N = 4 /\ Wait \in 0..5 /\ Sens \in 0..5
Init == /\ cnt = [i \in Members |-> 0] /\ left = [i \in Members |-> 0] /\ verdict = "None"
\* @type: (Int, Str) => Int;
NextCnt(k, s) == LET raw == IF s = "drift" /\ k = 0 THEN 1 ELSE IF s = "warning" THEN k ELSE IF k # 0 THEN k + 1 ELSE k
                 IN IF raw > Wait THEN 0 ELSE raw
\* @type: (Int, Str) => Bool;
IsVoterOf(lf, s) == (s = "drift" /\ lf = 0) \/ (s # "warning" /\ lf > 0)
Next == \E v \in [Members -> States] :
          /\ cnt' = [i \in Members |-> NextCnt(cnt[i], v[i])]
          /\ left' = [i \in Members |-> IF v[i] = "drift" /\ left[i] = 0 THEN Wait
                                        ELSE IF IsVoterOf(left[i], v[i]) THEN left[i] - 1 ELSE left[i]]
          /\ verdict' \in States
IndInv == /\ cnt \in [Members -> Int] /\ left \in [Members -> Int]
          /\ \A i \in Members : cnt[i] >= 0 /\ cnt[i] <= Wait /\ left[i] >= 0 /\ left[i] <= Wait
          /\ \A i \in Members : cnt[i] = (IF left[i] = 0 THEN 0 ELSE Wait - left[i] + 1)
          /\ verdict \in States
IndInit == IndInv
=============================================================================
