SPECIFICATION Spec
CONSTANT Depth = 7
CONSTRAINT Bound
INVARIANT TypeOK
INVARIANT WaitingMeans
PROPERTY DriftOnlyFromLabels
PROPERTY RefusalRules
PROPERTY NewReference
PROPERTY CountsUpdatesOnly
PROPERTY ReRefKeepsProtocol
CHECK_DEADLOCK FALSE
