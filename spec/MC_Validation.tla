---------------------------- MODULE MC_Validation ----------------------------
(* All call sequences up to Depth over a small input alphabet, for stream/batch x univariate or not.
   A second instance (variable bacc) receives the same values in the other container type wherever that is
   possible (container independence), and never sees the rejected calls (no-harm). *)
EXTENDS Validation, TLC
CONSTANTS Depth
VARIABLES lastRejected, bacc
vars == <<valvars, lastRejected, bacc>>
Inputs == { [frame |-> f, rows |-> r, width |-> w, names |-> nm] :
              f \in BOOLEAN, r \in 1..2, w \in 1..3, nm \in {"-", "a", "a,b", "a,c", "a,b,c"} }
WellFormed(i) == IF i.frame THEN (i.names = "a" /\ i.width = 1) \/ (i.names \in {"a,b", "a,c"} /\ i.width = 2)
                                 \/ (i.names = "a,b,c" /\ i.width = 3)
                 ELSE i.names = "-"
Alphabet == { i \in Inputs : WellFormed(i) }
Configs == { [kind |-> k, univ |-> u] : k \in {"stream", "batch"}, u \in BOOLEAN }
Init == (\E c \in Configs : InitWith(c)) /\ lastRejected = FALSE /\ bacc = <<>>
(* the twin is fed only the accepted calls *)
Call == \E i \in Alphabet :
          \/ Accept(i, 1) /\ lastRejected' = FALSE /\ bacc' = Append(bacc, i)
          \/ Reject(i) /\ lastRejected' = TRUE /\ bacc' = bacc
Next == Call
Spec == Init /\ [][Next]_vars
Bound == TLCGet("level") <= Depth
(* once established, enforced: every accepted input agrees with the established memory *)
Enforced == \A k \in 1..Len(accepted) :
              /\ accepted[k].width = accepted[1].width
              /\ \A j \in 1..Len(accepted) : accepted[k].frame /\ accepted[j].frame => accepted[k].names = accepted[j].names
              /\ (vcfg.univ => accepted[k].width = 1)
              /\ (vcfg.kind = "stream" => accepted[k].rows = 1) /\ (vcfg.kind = "batch" => accepted[k].rows >= 2)
MemoryMeaning == /\ (dim = -1) = (accepted = <<>>)
                 /\ accepted # <<>> => dim = accepted[1].width
                 /\ (cols # "-") = (\E k \in 1..Len(accepted) : accepted[k].frame)
Counted == total = Len(accepted)
(* a run that never saw the rejected calls is in the same state *)
NoHarm == bacc = accepted
(* rejection is decided by the four clauses and nothing else *)
RejectIsNoOp == [][ lastRejected' => UNCHANGED valvars ]_vars
=============================================================================
