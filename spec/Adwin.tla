------------------------------- MODULE Adwin -------------------------------
(* ADWIN (Bifet & Gavalda 2007) as menelaus documents it; C03, also C01 C12 C16 C17.

   Abstraction (exact): the adaptive window is the sequence `win` of the W most recent inputs;
   the exponential histogram is `cnt`, the number of buckets per row - row i (1-based) holds
   buckets of 2^(i-1) consecutive elements, rows with a larger index are older, and inside a row
   buckets are in time order.  Bucket totals are sums of consecutive stretches of `win`, so
   (win, cnt) determines every quantity the algorithm uses.  mean and variance are DEFINED on
   `win` (that they equal what the class reports is the property).

   One update = Add (append, compress) followed, when scheduled, by Shrink (drop oldest buckets
   while some admissible split exceeds epsilon-cut). *)
EXTENDS Integers, Sequences, Num
VARIABLES cfg,    \* [delta, M, T, wthr, sthr, cons]: delta, max_buckets, new_sample_thresh,
                  \*   window_size_thresh, subwindow_size_thresh, conservative_bound
          total, since, st, recs, win, cnt
adwinvars == <<cfg, total, since, st, recs, win, cnt>>
NoRecs == <<-1, -1>>
InitWith(c) == /\ cfg = c /\ total = 0 /\ since = 0 /\ st = "None" /\ recs = NoRecs
               /\ win = <<>> /\ cnt = <<0>>

RECURSIVE Pow2(_)
Pow2(n) == IF n = 0 THEN 1 ELSE 2 * Pow2(n - 1)
RECURSIVE SizeOf(_, _)
SizeOf(c, i) == IF i > Len(c) THEN 0 ELSE c[i] * Pow2(i - 1) + SizeOf(c, i + 1)   \* elements in rows i..
Layout == SizeOf(cnt, 1) = Len(win)

(* compress after a new 1-element bucket entered row 1: a row holding M+1 buckets merges its two
   oldest into one bucket of the next row *)
RECURSIVE Compress(_, _, _)
Compress(c, i, M) ==
  IF c[i] = M + 1
    THEN LET c1 == IF i = Len(c) THEN Append(c, 0) ELSE c
             c2 == [c1 EXCEPT ![i] = c1[i] - 2, ![i + 1] = c1[i + 1] + 1]
         IN IF c2[i + 1] <= M THEN c2 ELSE Compress(c2, i + 1, M)
    ELSE c

(* bucket sizes from oldest to newest *)
RECURSIVE Repeat(_, _)
Repeat(v, n) == IF n = 0 THEN <<>> ELSE <<v>> \o Repeat(v, n - 1)
RECURSIVE BucketSizes(_, _)
BucketSizes(c, i) == IF i = 0 THEN <<>> ELSE Repeat(Pow2(i - 1), c[i]) \o BucketSizes(c, i - 1)
RECURSIVE Cumul(_, _)
Cumul(q, acc) == IF q = <<>> THEN <<>> ELSE <<acc + Head(q)>> \o Cumul(Tail(q), acc + Head(q))
(* the split points: number of elements in the older part, for every bucket boundary *)
Boundaries(c) == Cumul(BucketSizes(c, Len(c)), 0)

(* drop the oldest bucket *)
RECURSIVE Strip(_)
Strip(c) == IF Len(c) > 1 /\ c[Len(c)] = 0 THEN Strip(SubSeq(c, 1, Len(c) - 1)) ELSE c
Top(c) == CHOOSE i \in 1..Len(c) : c[i] > 0 /\ \A j \in (i+1)..Len(c) : c[j] = 0
DropCnt(c) == Strip([c EXCEPT ![Top(c)] = c[Top(c)] - 1])
DropWin(w, c) == SubSeq(w, Pow2(Top(c) - 1) + 1, Len(w))

(* epsilon-cut for a split of w into n0 older and n1 newer elements *)
EpsCut(w, n0, n1) ==
  LET nh  == NAdd(NDiv(1, n0 - cfg.sthr + 1), NDiv(1, n1 - cfg.sthr + 1))
      lnW == NLn(Len(w))
  IN IF cfg.cons
       THEN NSqrt(NMul(NMul("0.5", nh), NLn(NDiv(NMul(4, lnW), cfg.delta))))
       ELSE LET dpd == NLn(NDiv(NMul(2, lnW), cfg.delta))
            IN NAdd(NSqrt(NMul(NMul(NMul(2, nh), NPopVarSeq(w)), dpd)),
                    NMul(NMul(NDiv(2, 3), nh), dpd))
MeanDiff(P, n0, n1) ==
  NAbs(NSub(NDiv(P[n0], n0), NDiv(NSub(P[n0 + n1], P[n0]), n1)))
Admissible(w, c) == { n0 \in { Boundaries(c)[k] : k \in 1..Len(Boundaries(c)) } :
                        n0 >= cfg.sthr /\ Len(w) - n0 >= cfg.sthr /\ Len(w) - n0 >= 1 }
Verdicts(w, c) == LET P == NPrefixSeq(w)
                  IN { NCmp(MeanDiff(P, n0, Len(w) - n0), EpsCut(w, n0, Len(w) - n0)) : n0 \in Admissible(w, c) }

(* all results <<window, layout, cut?>> the shrink loop may end in (several only when a
   comparison is ambiguous) *)
RECURSIVE ShrinkSet(_, _, _)
ShrinkSet(w, c, cut) ==
  LET v    == Verdicts(w, c)
      stop == {<<w, c, cut>>}
  IN IF 1 \in v THEN ShrinkSet(DropWin(w, c), DropCnt(c), TRUE)
     ELSE IF 2 \in v THEN stop \cup ShrinkSet(DropWin(w, c), DropCnt(c), TRUE)
     ELSE stop

Mean == IF Len(win) = 0 THEN "0.0" ELSE NMeanSeq(win)
Variance == IF Len(win) = 0 THEN "0.0" ELSE NPopVarSeq(win)

Step(x) ==
  LET w1 == Append(win, x)
      c1 == Compress([cnt EXCEPT ![1] = cnt[1] + 1], 1, cfg.M)
  IN /\ total' = total + 1 /\ cfg' = cfg
     /\ since' = (IF st = "drift" THEN 0 ELSE since) + 1
     /\ IF total' % cfg.T = 0 /\ Len(w1) > cfg.wthr
          THEN \E r \in ShrinkSet(w1, c1, FALSE) :
                 /\ win' = r[1] /\ cnt' = r[2]
                 /\ st' = (IF r[3] THEN "drift" ELSE "None")
                 /\ recs' = (IF r[3] THEN <<total' - Len(r[1]), total' - 1>> ELSE NoRecs)
          ELSE win' = w1 /\ cnt' = c1 /\ st' = "None" /\ recs' = NoRecs

(* user reset(): counters and recommendation restart, the window is deliberately kept *)
Reset == since' = 0 /\ st' = "None" /\ recs' = NoRecs /\ UNCHANGED <<cfg, total, win, cnt>>
PendingReset == st = "drift" /\ Reset
============================================================================
