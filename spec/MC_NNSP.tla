------------------------------- MODULE MC_NNSP -------------------------------
(* All pairs of samples of sizes 1..NS on a G x G lattice (duplicates within and across samples),
   k in 1..K, and EVERY valid k-nearest relation of their union (ties in all possible ways):
   membership exactness, symmetry, range, identity of the NNPS distance. *)
EXTENDS NNSP, TLC
CONSTANTS G, NS, K
Pts == { <<x, y>> : x \in 0..(G - 1), y \in 0..(G - 1) }
Samples == UNION { [1..n -> Pts] : n \in 1..NS }
VARIABLES s1, s2, k, nb, done
vars == <<s1, s2, k, nb, done>>
D == DistinctSorted(s1, s2)
Init == /\ s1 \in Samples /\ s2 \in Samples /\ k \in 1..K /\ nb = <<>> /\ done = FALSE
NbChoices(n) == [1..n -> { S \in SUBSET (1..n) : Cardinality(S) = k }]
Choose == /\ ~done /\ k <= Len(D)
          /\ \E c \in NbChoices(Len(D)) : KnnValid(D, c, k) /\ nb' = c
          /\ done' = TRUE /\ UNCHANGED <<s1, s2, k>>
Next == Choose
Spec == Init /\ [][Next]_vars
V1 == Member(D, s1)
V2 == Member(D, s2)
M == 2 * 3 * 2 * 5 * 7 * 2 * 3     \* lcm(1..9) = 2520 >= every a_j + b_j here
MembersExact == /\ \A i \in 1..Len(D) : (V1[i] = 1) <=> (\E j \in 1..Len(s1) : s1[j] = D[i])
                /\ \A i \in 1..Len(D) : (V2[i] = 1) <=> (\E j \in 1..Len(s2) : s2[j] = D[i])
                /\ \A i \in 1..Len(D) : V1[i] + V2[i] >= 1
                /\ \A i \in 1..(Len(D) - 1) : LexLess(D[i], D[i + 1], 1)
DistProps == done =>
               /\ ScaledSum(V1, V2, nb, M) = ScaledSum(V2, V1, nb, M)                    \* symmetric
               /\ ScaledSum(V1, V2, nb, M) >= 0 /\ ScaledSum(V1, V2, nb, M) <= M * Len(D)  \* in [0, 1]
               /\ (PointSet(s1) = PointSet(s2) => ScaledSum(V1, V2, nb, M) = 0)                  \* same set => 0
               /\ Close(NnpsDistance(V1, V2, nb), NDiv(ScaledSum(V1, V2, nb, M), M * Len(D)))
=============================================================================
