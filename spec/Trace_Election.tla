---------------------------- MODULE Trace_Election ----------------------------
(* Trace validation for ConfirmedElection walks: event = one call of the election object on the
   member states ev.v; projection = returned verdict and the public wait_period_counters. *)
EXTENDS Election, TraceLib
VARIABLES cfg, cnt
tvars == <<cfg, cnt, tid, l>>
Init == /\ tid \in 1..NTr /\ l = 1 /\ cfg = Traces[tid].cfg
        /\ cnt = [i \in 1..Traces[tid].cfg.n |-> 0]
Call == /\ More /\ Ev.op = "call"
        /\ Chk("verdict", ConfVerdict(cfg.sens, cnt, Ev.v), Ev.out)
        /\ cnt' = ConfNext(cfg.wait, cnt, Ev.v)
        /\ Chk("counters", cnt', Ev.cnt)
        /\ cfg' = cfg /\ Adv
(* the three stateless elections on member lists of any length (ev.kind, parameters ev.a / ev.c, member states ev.v) *)
Stateless == /\ More /\ Ev.op = "stateless"
             /\ Chk("verdict", CASE Ev.kind = "majority" -> Majority(Ev.v)
                                  [] Ev.kind = "min"      -> MinApproval(Ev.a, Ev.v)
                                  [] Ev.kind = "ordered"  -> OrderedApproval(Ev.a, Ev.c, Ev.v), Ev.out)
             /\ UNCHANGED <<cfg, cnt>> /\ Adv
Next == Call \/ Stateless
Spec == Init /\ [][Next]_tvars
=============================================================================
