--------------------------- MODULE MC_KdqDetector ---------------------------
(* Streaming: all sample sequences over a small 1-D alphabet up to Depth, W in {2,3}, three
   persistence values, the critical value drawn from a 2-value set at every reference build.
   Batch: all sequences over a 3-batch alphabet. *)
EXTENDS KdqDetector, TLC
CONSTANTS Depth
VARIABLES aboves     \* history: the decisions `KL > crit` of the current epoch's tested samples
vars == <<kdvars, aboves>>
Pts == {<<0>>, <<1>>, <<6>>}
Crits == { [crit |-> c, lo |-> "0.0", hi |-> "9.0"] : c \in {"0.02", "0.25"} }
Batches == { <<<<0>>, <<1>>, <<2>>, <<6>>>>, <<<<0>>, <<0>>, <<1>>, <<1>>>>, <<<<5>>, <<6>>, <<6>>, <<7>>>> }
Configs == { [kind |-> "stream", W |-> w, pers |-> p, ub |-> 1, lbnum |-> 0, lbden |-> 1] : w \in {2, 3}, p \in {"0.0", "0.5", "1.0"} }
           \cup { [kind |-> "batch", W |-> 0, pers |-> "0.0", ub |-> 1, lbnum |-> 0, lbden |-> 1] }
Init == (\E c \in Configs : InitWith(c)) /\ aboves = <<>>
SUpdate == /\ dcfg.kind = "stream"
           /\ \E x \in Pts, c \in Crits : StreamStep(x, c)
           /\ aboves' = IF testn' >= dcfg.W /\ testn' > 0 /\ tree' # NoTree /\ dist' # "None"
                          THEN (IF st = "drift" THEN <<>> ELSE aboves) \o <<DefGt(dist', crit')>>
                          ELSE (IF st = "drift" \/ tree' = NoTree \/ testn' = 0 THEN <<>> ELSE aboves)
SReset == dcfg.kind = "stream" /\ total > 0 /\ StreamReset /\ aboves' = <<>>
BSetRef == dcfg.kind = "batch" /\ (\E q \in Batches, c \in Crits : SetReference(q, c)) /\ aboves' = <<>>
BUpdate == dcfg.kind = "batch" /\ (\E q \in Batches, c \in Crits : BatchStep(q, c)) /\ aboves' = <<>>
BReset == dcfg.kind = "batch" /\ total > 0 /\ StreamReset /\ aboves' = <<>>      \* reset() of the batch detector drops the reference as well
Next == SUpdate \/ SReset \/ BSetRef \/ BUpdate \/ BReset
Spec == Init /\ [][Next]_vars
Bound == TLCGet("level") <= Depth

LC == INSTANCE Lifecycle WITH ltab <- [restart |-> 1, incs |-> {1}, hasrecs |-> FALSE, epochbound |-> TRUE, refrestart |-> TRUE],
        state <- st, recs <- <<-1, -1>>,
        warm <- IF dcfg.kind = "stream" THEN tree # NoTree /\ testn >= dcfg.W ELSE tree # NoTree /\ since >= 1
LCSpec == LC!Spec
TypeOK == LC!TypeOK /\ st # "warning"
NoEarly == LC!NoEarly
(* streaming: silent until a full reference window and a further W samples have arrived *)
SilentUntil2W == dcfg.kind = "stream" /\ st = "drift" => since >= dcfg.W /\ testn >= dcfg.W
(* drift means: more than persistence * W decisions IN A ROW were above the critical value *)
RECURSIVE TrailingTrue(_)
TrailingTrue(q) == IF q = <<>> \/ ~q[Len(q)] THEN 0 ELSE 1 + TrailingTrue(SubSeq(q, 1, Len(q) - 1))
InARow == dcfg.kind = "stream" =>
            /\ run = TrailingTrue(aboves)
            /\ (st = "drift" <=> (aboves # <<>> /\ aboves[Len(aboves)] /\ DefGt(TrailingTrue(aboves), NMul(dcfg.pers, dcfg.W))))
(* batch: drift iff divergence above the critical value; the drifted batch is what the next reference is built from *)
BatchRule == dcfg.kind = "batch" /\ dist # "None" => (st = "drift" <=> DefGt(dist, crit))
NextRef == dcfg.kind = "batch" => (st = "drift" <=> pending # <<>>)
RefCounts == tree # NoTree => SumInts(LeafCounts(tree, 1)) = IF dcfg.kind = "stream" THEN dcfg.W ELSE 4
=============================================================================
