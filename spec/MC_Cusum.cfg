SPECIFICATION Spec
CONSTANT Depth = 7
CONSTRAINT Bound
INVARIANT TypeOK
INVARIANT NoAlarmInBurnIn
INVARIANT DirectionSound
INVARIANT NonNeg
INVARIANT TwinAgree
PROPERTY LCSpec
CHECK_DEADLOCK FALSE
