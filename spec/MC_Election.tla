----------------------------- MODULE MC_Election -----------------------------
(* Exhaustive check of the election rules (all state vectors up to N members, all parameter
   values 0..N+1) and explicit-state exploration of ConfirmedElection: every reachable counter
   vector x every state vector, for every (sensitivity, wait_time) in the bound.
   `left` is the property's own formulation (remaining voting calls per member), checked against
   the class-shaped counters. *)
EXTENDS Election, TLC
CONSTANTS N, MaxWait
Vectors(n) == [1..n -> States]
AllVectors == UNION { Vectors(n) : n \in 0..N }
Params == 0..(N + 1)

(* ---- stateless rules: procedural form = voting rule, range, monotonicity ---- *)
Raise(v, i) == [v EXCEPT ![i] = "drift"]
StatelessOK ==
  \A v \in AllVectors :
    /\ Majority(v) = MajorityRule(v)
    /\ \A a \in Params : MinApproval(a, v) = (IF Len(v) = 0 THEN "None" ELSE IF a <= 0 THEN "drift" ELSE MinApprovalRule(a, v))
    /\ \A a \in Params, c \in Params :
         OrderedApproval(a, c, v) = (IF a + c = 0 THEN (IF NDrift(v) >= 1 THEN "drift" ELSE "None") ELSE OrderedRule(a, c, v))
    /\ \A i \in 1..Len(v) :
         /\ Majority(v) = "drift" => Majority(Raise(v, i)) = "drift"
         /\ \A a \in Params : MinApproval(a, v) = "drift" => MinApproval(a, Raise(v, i)) = "drift"
         /\ \A a \in Params, c \in Params : OrderedApproval(a, c, v) = "drift" => OrderedApproval(a, c, Raise(v, i)) = "drift"
ASSUME StatelessOK
(* the counter step used by the Apalache inductive check (Apa_Confirmed.tla) is the one of Election.tla *)
ApaNextCnt(k, s, W) == LET raw == IF s = "drift" /\ k = 0 THEN 1 ELSE IF s = "warning" THEN k ELSE IF k # 0 THEN k + 1 ELSE k
                       IN IF raw > W THEN 0 ELSE raw
ASSUME \A W \in 0..4, k \in 0..4, s \in States : k <= W => ApaNextCnt(k, s, W) = ConfNext(W, <<k>>, <<s>>)[1]

(* ---- ConfirmedElection as a state machine ---- *)
VARIABLES n, sens, wait, cnt, left, verdict
vars == <<n, sens, wait, cnt, left, verdict>>
Init == /\ n \in 1..N /\ sens \in 0..(N + 1) /\ wait \in 0..MaxWait
        /\ cnt = [i \in 1..n |-> 0] /\ left = [i \in 1..n |-> 0] /\ verdict = "None"
(* the property's formulation: a member is a voter in the call in which it newly reports drift and in
   each of its next `wait` calls in which it does not report warning *)
IsVoter(i, v) == (v[i] = "drift" /\ left[i] = 0) \/ (v[i] # "warning" /\ left[i] > 0)
NewlyAlarms(i, v) == v[i] = "drift" /\ left[i] = 0
CallV(v) ==
          /\ verdict' = ConfVerdict(sens, cnt, v)
          /\ cnt' = ConfNext(wait, cnt, v)
          /\ left' = [i \in 1..n |-> IF NewlyAlarms(i, v) THEN wait
                                     ELSE IF IsVoter(i, v) THEN left[i] - 1 ELSE left[i]]
          /\ LET voters == Cardinality({i \in 1..n : IsVoter(i, v)})
                 warns  == Cardinality({i \in 1..n : v[i] = "warning"})
             IN verdict' = (IF voters >= sens THEN "drift" ELSE IF voters + warns >= sens THEN "warning" ELSE "None")
          /\ UNCHANGED <<n, sens, wait>>
Call == \E v \in Vectors(n) : CallV(v)
Next == Call
Spec == Init /\ [][Next]_vars
CounterBound == \A i \in 1..n : cnt[i] \in 0..wait
(* the class-shaped counter and the property-shaped remaining time describe the same thing *)
CounterMeaning == \A i \in 1..n : cnt[i] = (IF left[i] = 0 THEN 0 ELSE wait - left[i] + 1)
VerdictRange == verdict \in States
=============================================================================
