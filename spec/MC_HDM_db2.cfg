SPECIFICATION Spec
CONSTANT Depth = 6
CONSTANT DB = 2
CONSTRAINT Bound
INVARIANT TypeOK
INVARIANT NoDriftBefore
INVARIANT DriftRule
INVARIANT EpsDef
INVARIANT DistRange
PROPERTY LCSpec
PROPERTY RefRule
CHECK_DEADLOCK FALSE
