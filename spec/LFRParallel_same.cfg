SPECIFICATION Spec
CONSTANT Keys = {k1}
INVARIANT SameKeySameBounds
CHECK_DEADLOCK FALSE
