SPECIFICATION Spec
CONSTANT Depth = 13
CONSTRAINT Bound
INVARIANT TypeOK
INVARIANT Silent
INVARIANT MonitorWindows
PROPERTY LCSpec
PROPERTY SilentAfterDrift
PROPERTY OnSchedule
PROPERTY DriftIffPH
PROPERTY Promote
CHECK_DEADLOCK FALSE
