SPECIFICATION Spec
CONSTANT R = 3
CONSTANT C = 2
INVARIANT ShapeKept
CHECK_DEADLOCK FALSE
