------------------------------- MODULE STEPD -------------------------------
(* Executable specification of STEPD (Nishida & Yamauchi 2007) as menelaus documents it; C05,
   also C01 C02 C16 C17.   Input: a = 1 iff the prediction is correct.
   The two-proportion test with continuity correction compares the accuracy of the `w` most
   recent outcomes with that of all earlier outcomes of the epoch; the test p < alpha is expressed
   as stat > z(1-alpha) with the normal quantiles zw, zd supplied in cfg (trusted table). *)
EXTENDS Integers, Sequences, Num
VARIABLES cfg,      \* [w, zw, zd]: window_size, z(1-alpha_warning), z(1-alpha_drift)
          total, since, st, recs,
          win, r     \* the (at most w) most recent outcomes; number correct among the earlier ones
stepdvars == <<cfg, total, since, st, recs, win, r>>
NoRecs == <<-1, -1>>
RECURSIVE SumSeq(_)
SumSeq(q) == IF q = <<>> THEN 0 ELSE Head(q) + SumSeq(Tail(q))
InitWith(c) == /\ cfg = c /\ total = 0 /\ since = 0 /\ st = "None" /\ recs = NoRecs
               /\ win = <<>> /\ r = 0
Recent  == IF Len(win) = 0 THEN 0 ELSE NDiv(SumSeq(win), Len(win))
Past    == IF since - Len(win) = 0 THEN 0 ELSE NDiv(r, since - Len(win))
Overall == IF since = 0 THEN 0 ELSE NDiv(r + SumSeq(win), since)

Step(a) ==
  LET fresh == st = "drift"
      w0  == IF fresh THEN <<>> ELSE win
      r0  == IF fresh THEN 0 ELSE r
      rc0 == IF fresh THEN NoRecs ELSE recs
      st0 == IF fresh THEN "None" ELSE st
      w1  == Append(w0, a)
  IN /\ since' = (IF fresh THEN 0 ELSE since) + 1
     /\ total' = total + 1
     /\ cfg' = cfg
     /\ win' = (IF Len(w1) > cfg.w THEN Tail(w1) ELSE w1)
     /\ r'   = (IF Len(w1) > cfg.w THEN r0 + Head(w1) ELSE r0)
     /\ IF since' < 2 * cfg.w
          THEN st' = st0 /\ recs' = rc0
          ELSE LET s    == SumSeq(win')
                   nold == since' - Len(win')
                   rec  == NDiv(s, Len(win'))
                   past == IF nold = 0 THEN 0 ELSE NDiv(r', nold)
                   ov   == NDiv(r' + s, since')
                   aa   == NAdd(NDiv(1, since' - cfg.w), NDiv(1, cfg.w))
                   stat == NDiv(NSub(NAbs(NSub(past, rec)), NMul("0.5", aa)),
                                NSqrt(NMul(NMul(ov, NSub(1, ov)), aa)))
                   dec  == r' * Len(win') > s * nold     \* past > recent, exactly (cross-multiplied)
               IN \E d \in GtSet(stat, cfg.zd), wn \in GtSet(stat, cfg.zw) :
                    /\ st' = (IF dec /\ nold > 0 /\ d THEN "drift" ELSE IF dec /\ nold > 0 /\ wn THEN "warning" ELSE "None")
                    /\ recs' = (IF st' = "None" THEN NoRecs
                                ELSE IF rc0[1] = -1 THEN <<total, total>>
                                ELSE <<rc0[1], rc0[2] + 1>>)
(* n correct predictions in a row while the recent window already holds correct predictions only and nothing is reported: each of them is a
   Step(1) that leaves the window as it is, moves one correct outcome into the past and - accuracy has not decreased - reports nothing.  The closed
   form lets a trace fold a long quiet stretch into one event; MC_STEPD.QuietIsStep checks it against Step(1) on every reachable such state
   (the precondition is preserved by the step, so n steps follow by induction). *)
QuietPre == st = "None" /\ recs = NoRecs /\ Len(win) = cfg.w /\ SumSeq(win) = cfg.w
Quiet(n) == /\ n >= 1 /\ QuietPre
            /\ since' = since + n /\ total' = total + n /\ r' = r + n /\ UNCHANGED <<cfg, win, st, recs>>
Reset == /\ since' = 0 /\ st' = "None" /\ recs' = NoRecs /\ win' = <<>> /\ r' = 0 /\ UNCHANGED <<cfg, total>>
PendingReset == st = "drift" /\ Reset
============================================================================
