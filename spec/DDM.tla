------------------------------- MODULE DDM -------------------------------
(* Executable specification of the Drift Detection Method (Gama et al. 2004) as menelaus
   documents it; C05, also C01 C02 C16 C17.
   Input alphabet: c = 1 iff y_pred # y_true (an error) - labels enter only through agreement.

   Documented deviations of this executable specification from the paper (C05 does not fix them):
   the thresholds use the CURRENT deviation (p + s >= p_min + scale * s), and the deviation
   recurrence stores the square root back.  Both are what the class documents in its comments. *)
EXTENDS Integers, Sequences, Num
VARIABLES cfg,      \* [nthr, ws, ds] constructor parameters: n_threshold, warning_scale, drift_scale
          total, since, st, recs,
          rate, std, rmin, smin
ddmvars == <<cfg, total, since, st, recs, rate, std, rmin, smin>>

NoRecs == <<-1, -1>>
InitWith(c) == /\ cfg = c /\ total = 0 /\ since = 0 /\ st = "None" /\ recs = NoRecs
               /\ rate = "0.0" /\ std = "0.0" /\ rmin = INF /\ smin = INF

(* one update with outcome c; the update that follows a drift starts from the clean slate *)
Step(c) ==
  LET fresh == st = "drift"
      r0  == IF fresh THEN "0.0" ELSE rate
      sd0 == IF fresh THEN "0.0" ELSE std
      rm0 == IF fresh THEN INF ELSE rmin
      sm0 == IF fresh THEN INF ELSE smin
      rc0 == IF fresh THEN NoRecs ELSE recs
      st0 == IF fresh THEN "None" ELSE st
  IN /\ since' = (IF fresh THEN 0 ELSE since) + 1
     /\ total' = total + 1
     /\ cfg' = cfg
     /\ rate' = NAdd(r0, NDiv(NSub(c, r0), since'))
     /\ std' = NSqrt(NDiv(NAdd(sd0, NMul(NSub(c, rate'), NSub(c, r0))), since'))
     /\ IF since' < cfg.nthr
          THEN /\ rmin' = rm0 /\ smin' = sm0 /\ st' = st0 /\ recs' = rc0
          ELSE LET lhs == NAdd(rate', std') IN
               \E newmin \in LeSet(lhs, NAdd(rm0, sm0)) :
                 /\ rmin' = (IF newmin THEN rate' ELSE rm0)
                 /\ smin' = (IF newmin THEN std' ELSE sm0)
                 /\ \E d \in GeSet(lhs, NAdd(rmin', NMul(cfg.ds, std'))),
                       w \in GeSet(lhs, NAdd(rmin', NMul(cfg.ws, std'))) :
                      /\ st' = (IF d THEN "drift" ELSE IF w THEN "warning" ELSE "None")
                      /\ recs' = (IF st' = "None" THEN rc0
                                  ELSE IF st' = "warning"
                                         THEN (IF rc0[1] = -1 THEN <<total, rc0[2]>> ELSE rc0)
                                  ELSE <<(IF rc0[1] = -1 THEN total ELSE rc0[1]), total>>)
(* user-initiated reset(): the epoch statistics and the recommendation restart, the total is kept *)
Reset == /\ since' = 0 /\ st' = "None" /\ recs' = NoRecs /\ rate' = "0.0" /\ std' = "0.0" /\ rmin' = INF /\ smin' = INF
         /\ UNCHANGED <<cfg, total>>
(* a call refused by input validation right after a drift has already performed the pending automatic reset *)
PendingReset == st = "drift" /\ Reset
==========================================================================
