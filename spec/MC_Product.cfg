SPECIFICATION Spec
CONSTANT Depth = 4
CONSTRAINT Bound
INVARIANT StrictFirstRefused
INVARIANT WarnLost
INVARIANT ProtocolEnforced
INVARIANT ThresholdOrder
PROPERTY Reflexive
CHECK_DEADLOCK FALSE
