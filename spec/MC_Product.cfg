SPECIFICATION Spec
CONSTANT Depth = 4
CONSTRAINT Bound
INVARIANT StrictFirstRefused
INVARIANT WarnLost
INVARIANT ProtocolEnforced
PROPERTY Reflexive
CHECK_DEADLOCK FALSE
