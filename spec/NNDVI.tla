-------------------------------- MODULE NNDVI --------------------------------
(* C10 - NN-DVI on top of the nearest-neighbour partitioner.  The permutation threshold is an
   environment value th = [theta, lo, hi] (theta "NA" if unobserved; [lo, hi] the independently
   computed bracket of the documented (1 - alpha) normal quantile of the permutation distances).
   part = [D, v1, v2, nb] is what the partitioner reports for (reference, batch); the specification
   checks it (membership exact, neighbours valid) and computes the distance from it. *)
EXTENDS NNSP
VARIABLES ncfg,    \* [k]
          total, since, st, ref, dist
nnvars == <<ncfg, total, since, st, ref, dist>>
InitWith(c) == ncfg = c /\ total = 0 /\ since = 0 /\ st = "None" /\ ref = <<>> /\ dist = "None"
ToSets(q) == [i \in 1..Len(q) |-> { q[i][j] : j \in 1..Len(q[i]) }]
PartOK(part, a, b) ==
  /\ part.D = DistinctSorted(a, b)
  /\ part.v1 = Member(part.D, a) /\ part.v2 = Member(part.D, b)
  /\ KnnValid(part.D, ToSets(part.nb), ncfg.k)
(* a degenerate permutation distribution (all distances equal: lo = hi up to rounding) has no normal fit; the
   implementation then holds NaN, which compares like the point mass itself because no distance exceeds it *)
(* th.fit: the (1 - alpha) quantile of the normal distribution fitted (mean, population deviation) to the very re-assignment distances
   the implementation computed for this update, when they could be observed ("NA" otherwise): the threshold must then BE that number *)
FitOK(th) == IF th.fit = "NA" \/ th.theta = "NA" THEN TRUE
             ELSE IF NIsNaN(th.fit) THEN NIsNaN(th.theta) ELSE Close(th.theta, th.fit)
(* th.nre: how many re-assignment distances the update was observed to compute (-1: not observable): sampling_times of them *)
ThetaOK(th) == /\ FitOK(th)
               /\ (th.nre = -1 \/ th.nre = th.st)
               /\ \/ th.theta = "NA"
                  \/ NCmp(th.lo, th.theta) \in {-1, 0, 2} /\ NCmp(th.theta, th.hi) \in {-1, 0, 2}
                  \/ NIsNaN(th.theta) /\ Close(th.lo, th.hi)
                  \/ th.fit # "NA" /\ NIsNaN(th.fit) /\ NIsNaN(th.theta)      \* the observed distances were all equal: no normal fit (few re-assignments)
AboveSet(d, th) ==
  IF th.theta # "NA" THEN GtSet(d, th.theta)
  ELSE IF DefGt(d, th.hi) THEN {TRUE} ELSE IF DefLt(d, th.lo) THEN {FALSE} ELSE {TRUE, FALSE}
(* a new reference starts a new epoch (the state itself is only cleared by the next update / reset) *)
SetReference(q) == /\ ref' = q /\ since' = 0 /\ UNCHANGED <<ncfg, total, st, dist>>
Update(q, part, th) ==
  /\ total' = total + 1 /\ since' = (IF st = "drift" THEN 0 ELSE since) + 1 /\ ncfg' = ncfg
  /\ PartOK(part, ref, q) /\ ThetaOK(th)
  /\ dist' = NnpsDistance(part.v1, part.v2, ToSets(part.nb))
  /\ \E above \in AboveSet(dist', th) :
       /\ st' = (IF above THEN "drift" ELSE "None")
       /\ ref' = (IF above THEN q ELSE ref)        \* on drift the batch becomes the reference, otherwise it is kept
UserReset == since' = 0 /\ st' = "None" /\ UNCHANGED <<ncfg, total, ref, dist>>
=============================================================================
