------------------------------ MODULE Trace_HDM ------------------------------
(* Trace validation for HDDDM / CDBD on integer data.  Projection after each call (all public):
   counters, state, current_distance, this batch's entry of epsilon_values and thresholds,
   feature_info at a drift; ev.e0 is the bootstrapped first epsilon read from the public epsilon list
   on the second batch of an epoch ("None" otherwise). *)
EXTENDS HDM, TraceLib
tvars == <<hdmvars, tid, l>>
Init == /\ tid \in 1..NTr /\ l = 1 /\ InitWith(Traces[tid].cfg)
NumChk(name, a, b) == IF a = "None" \/ b = "None" THEN Chk(name, a, b) ELSE ChkB(name, Close(a, b), <<a, b>>)
Counters(s) == /\ Chk("total", s.total, Ev.total) /\ Chk("since", s.since, Ev.since) /\ Chk("state", s.st, Ev.state)
InfoOK(s) == IF s.st = "drift" /\ hcfg.F > 1
               THEN /\ ChkB("feature_info argmax (a feature whose distance grew most; ties within the comparison tolerance admitted)",
                         (Ev.argmax + 1) \in s.info.cands, <<s.info.argmax - 1, Ev.argmax>>)
                    /\ \A f \in 1..hcfg.F : NumChk("feature_info distances", s.info.dists[f], Ev.fdists[f])
               ELSE TRUE
Stats(s) == /\ NumChk("current_distance", s.dist, Ev.dist) /\ NumChk("epsilon", s.ceps, Ev.eps)
            /\ NumChk("threshold", s.beta, Ev.beta) /\ Chk("reference size", Len(s.ref), Ev.refn) /\ InfoOK(s)
Upd == /\ More /\ Ev.op = "update" /\ Update(Ev.data, Ev.e0) /\ Counters(h') /\ Stats(h') /\ Adv
Ref == /\ More /\ Ev.op = "set_reference" /\ SetReference(Ev.data) /\ Counters(h')
       /\ Chk("reference size", Len(h'.ref), Ev.refn) /\ Adv
Rst == /\ More /\ Ev.op = "reset" /\ UserReset /\ Counters(h') /\ Adv
(* a call refused by input validation: nothing moves - except that an update refused right after a drift has already performed the pending automatic
   reset (once: the call that follows must not perform it again) *)
Bad == /\ More /\ Ev.op = "bad" /\ (UNCHANGED hdmvars \/ (h.st = "drift" /\ UserReset)) /\ Counters(h')
       /\ Chk("reference size", Len(h'.ref), Ev.refn) /\ Adv
Next == Upd \/ Ref \/ Rst \/ Bad
Spec == Init /\ [][Next]_tvars
=============================================================================
