---------------------------- MODULE Trace_STEPD ----------------------------
(* Trace validation for STEPD: ev.c = 1 iff y_pred # y_true (the spec's input is agreement = 1 - c);
   the three public accuracies are part of the projection. *)
EXTENDS STEPD, TraceLib
tvars == <<stepdvars, tid, l>>
Init == /\ tid \in 1..NTr /\ l = 1 /\ InitWith(Traces[tid].cfg)
Update == /\ More /\ Ev.op = "update"
          /\ Step(1 - Ev.c)
          /\ Chk("total", total', Ev.total) /\ Chk("since", since', Ev.since)
          /\ Chk("state", st', Ev.state) /\ Chk("recs", recs', Ev.recs)
          /\ ChkB("recent", Close(Recent', Ev.recent), <<Recent', Ev.recent>>)
          /\ ChkB("past", Close(Past', Ev.past), <<Past', Ev.past>>)
          /\ ChkB("overall", Close(Overall', Ev.overall), <<Overall', Ev.overall>>)
          /\ Adv
(* a folded stretch of Ev.n correct predictions during which the implementation reported nothing (the harness folds only such stretches, and only
   after at least window_size correct predictions in a row): the observation is the one after the last of them *)
QuietEv == /\ More /\ Ev.op = "quiet"
           /\ ChkB("a quiet stretch may be folded here (recent window all correct, nothing reported)", QuietPre, <<win, st, recs>>)
           /\ Quiet(Ev.n)
           /\ Chk("total", total', Ev.total) /\ Chk("since", since', Ev.since)
           /\ Chk("state", st', Ev.state) /\ Chk("recs", recs', Ev.recs)
           /\ ChkB("recent", Close(Recent', Ev.recent), <<Recent', Ev.recent>>)
           /\ ChkB("past", Close(Past', Ev.past), <<Past', Ev.past>>)
           /\ ChkB("overall", Close(Overall', Ev.overall), <<Overall', Ev.overall>>)
           /\ Adv
Counters == /\ Chk("total", total', Ev.total) /\ Chk("since", since', Ev.since)
            /\ Chk("state", st', Ev.state) /\ Chk("recs", recs', Ev.recs)
UserReset == /\ More /\ Ev.op = "reset" /\ Reset /\ Counters /\ Adv
Refused == /\ More /\ Ev.op = "bad" /\ (UNCHANGED stepdvars \/ PendingReset) /\ Counters /\ Adv
Next == Update \/ UserReset \/ Refused \/ QuietEv
Spec == Init /\ [][Next]_tvars
==========================================================================
