--------------------------------- MODULE MD3 ---------------------------------
(* C19 - MD3's warn / ask-the-oracle / confirm protocol.
   A sample is abstracted to two bits under the user-supplied functions: m = 1 iff it lies in the
   margin, c = 1 iff the classifier labels it correctly.  A reference of N rows is summarised over
   the K cross-validation folds (fold of row i = Folds(N)[i], a kernel table from sklearn's KFold;
   the bits of a row are taken under the classifier clone trained on the other folds):
       md, md_std  = mean / population deviation over folds of the per-fold margin density
       acc, acc_std likewise for the per-fold accuracy
   mode "Idle" | "Waiting"; oracle = the labelled samples collected so far (as <<m, c>> pairs). *)
EXTENDS Integers, Sequences, FiniteSets, Num
VARIABLES mcfg,    \* [sens, L, K, folds]   folds: function N |-> sequence of fold ids for a reference of N rows
          total, since, st, mode, oracle,
          refn, md, mdstd, acc, accstd, cur
md3vars == <<mcfg, total, since, st, mode, oracle, refn, md, mdstd, acc, accstd, cur>>

FoldIdx(rows, f) == { i \in 1..Len(rows) : mcfg.folds[Len(rows)][i] = f }
FoldMean(rows, f, bit) == NDiv(Cardinality({ i \in FoldIdx(rows, f) : rows[i][bit] = 1 }), Cardinality(FoldIdx(rows, f)))
PerFold(rows, bit) == [f \in 1..mcfg.K |-> FoldMean(rows, f, bit)]
(* statistics of a reference given as a sequence of <<m, c>> rows *)
Stats(rows) == [n |-> Len(rows),
                md |-> NMeanSeq(PerFold(rows, 1)), mdstd |-> NPopStdSeq(PerFold(rows, 1)),
                acc |-> NMeanSeq(PerFold(rows, 2)), accstd |-> NPopStdSeq(PerFold(rows, 2))]
Adopt(s) == /\ refn' = s.n /\ md' = s.md /\ mdstd' = s.mdstd /\ acc' = s.acc /\ accstd' = s.accstd /\ cur' = s.md

InitWith(c) == /\ mcfg = c /\ total = 0 /\ since = 0 /\ st = "None" /\ mode = "Idle" /\ oracle = <<>>
               /\ refn = 0 /\ md = "0.0" /\ mdstd = "0.0" /\ acc = "0.0" /\ accstd = "0.0" /\ cur = "0.0"
SetReference(rows) == /\ Adopt(Stats(rows)) /\ UNCHANGED <<mcfg, total, since, st, mode, oracle>>

(* update with one sample whose margin bit is m *)
Update(m) ==
  /\ mode = "Idle" /\ refn > 0
  /\ total' = total + 1 /\ since' = (IF st = "drift" THEN 0 ELSE since) + 1
  /\ LET ff   == NDiv(refn - 1, refn)
         cur0 == IF st = "drift" THEN md ELSE cur        \* after a drift: start again from the reference density
     IN cur' = NAdd(NMul(ff, cur0), NMul(NSub(1, ff), m))
  /\ \E w \in GtSet(NAbs(NSub(cur', md)), NMul(mcfg.sens, mdstd)) :
       /\ st' = (IF w THEN "warning" ELSE IF st = "drift" THEN "None" ELSE st)
       /\ mode' = (IF w THEN "Waiting" ELSE "Idle")
  /\ UNCHANGED <<mcfg, oracle, refn, md, mdstd, acc, accstd>>
(* update is refused while waiting for labels or when handed anything but one row: nothing changes *)
UpdateRefused(rows) == (mode = "Waiting" \/ rows # 1) /\ UNCHANGED md3vars

(* one labelled sample <<m, c>> (bits under the detector's own classifier); newrows: when this label completes
   the oracle set, the bits of the L labelled samples under the fold clones of the NEW reference (kernel table) *)
GiveLabel(m, c, newrows) ==
  /\ mode = "Waiting"
  /\ LET o1 == Append(oracle, <<m, c>>) IN
     IF Len(o1) = mcfg.L
       THEN LET accLab == NDiv(Cardinality({ i \in 1..Len(o1) : o1[i][2] = 1 }), Len(o1))
            IN /\ \E d \in GtSet(NSub(acc, accLab), NMul(mcfg.sens, accstd)) : st' = (IF d THEN "drift" ELSE "None")
               /\ Len(newrows) = mcfg.L /\ Adopt(Stats(newrows)) /\ oracle' = <<>> /\ mode' = "Idle"
       ELSE /\ st' = "None" /\ oracle' = o1 /\ mode' = "Waiting"
            /\ UNCHANGED <<refn, md, mdstd, acc, accstd, cur>>
  /\ UNCHANGED <<mcfg, total, since>>
(* refused: not waiting, not exactly one row, or columns differing from the reference's *)
LabelRefused(rows, colsok) == (mode = "Idle" \/ rows # 1 \/ ~colsok) /\ UNCHANGED md3vars
=============================================================================
