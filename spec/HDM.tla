--------------------------------- MODULE HDM ---------------------------------
(* C07 - HDDDM / CDBD (histogram density method) as menelaus documents it; also C02 C17 C18.
   Batches are sequences of rows of INTEGERS, so the histograms (counts per bin on the common range
   of reference and batch, floor(sqrt(reference size)) bins) are exact; distances and thresholds go
   through Num.  The detector state is one record `h`:

     total since st     counters and state            lam    batch number at which the epoch started
     ref                the reference rows (in order)  prev / prevF  distance (per feature) of the previous batch
     eps, toteps        epsilons of the epoch, running sum
     dist, distF        distance of the last batch     ceps, beta   its epsilon / threshold ("None" if not computed)
     info               feature_info of the last drift

   Environment inputs of an update: e0, the bootstrapped estimate of the first epsilon (used on the
   second batch of an epoch when detect_batch # 3; validated separately), and the Student-t
   quantile table cfg.ttab (trusted, scipy). *)
EXTENDS Integers, Sequences, FiniteSets, FiniteSetsExt, Num
VARIABLES hcfg,   \* [db, stat, sig, div, F, ttab]
          h
hdmvars == <<hcfg, h>>

RECURSIVE ISqrtFrom(_, _)
ISqrtFrom(n, k) == IF (k + 1) * (k + 1) > n THEN k ELSE ISqrtFrom(n, k + 1)
ISqrt(n) == ISqrtFrom(n, 0)
Col(q, f) == [i \in 1..Len(q) |-> q[i][f]]
MinOf(c1, c2) == Min({c1[i] : i \in 1..Len(c1)} \cup {c2[i] : i \in 1..Len(c2)})
MaxOf(c1, c2) == Max({c1[i] : i \in 1..Len(c1)} \cup {c2[i] : i \in 1..Len(c2)})
BinOf(v, bins, mn, mx) == IF mx = mn THEN bins \div 2 + 1
                          ELSE LET b == ((v - mn) * bins) \div (mx - mn) IN IF b = bins THEN bins ELSE b + 1
Hist(col, bins, mn, mx) == [b \in 1..bins |-> Cardinality({i \in 1..Len(col) : BinOf(col[i], bins, mn, mx) = b})]
RECURSIVE SumI(_)
SumI(q) == IF q = <<>> THEN 0 ELSE Head(q) + SumI(Tail(q))

(* ---- divergences between two histograms on the same bins ---- *)
Sq(x) == NMul(x, x)
HellRT(r, t, R, T) == NSqrt(NSumSeq([b \in 1..Len(r) |-> Sq(NSub(NSqrt(NDiv(t[b], T)), NSqrt(NDiv(r[b], R))))]))
Hellinger(r, t) == HellRT(r, t, SumI(r), SumI(t))
RelEntr(x, m) == IF NSign(x) = 0 THEN "0.0" ELSE NMul(x, NLn(NDiv(x, m)))
JSpq(p, q) == NSqrt(NDiv(NAdd(NSumSeq([b \in 1..Len(p) |-> RelEntr(p[b], NDiv(NAdd(p[b], q[b]), 2))]),
                               NSumSeq([b \in 1..Len(p) |-> RelEntr(q[b], NDiv(NAdd(p[b], q[b]), 2))])), 2))
Normed(c, tot) == [b \in 1..Len(c) |-> NDiv(c[b], tot)]
JensenShannon(r, t) == JSpq(Normed(r, SumI(r)), Normed(t, SumI(t)))
TotalVar(r, t) == NDiv(NSumSeq([b \in 1..Len(r) |-> NAbs(NSub(NDiv(r[b], SumI(r)), NDiv(t[b], SumI(t))))]), 2)
Div(r, t) == IF hcfg.div = "H" THEN Hellinger(r, t) ELSE IF hcfg.div = "JS" THEN JensenShannon(r, t) ELSE TotalVar(r, t)

(* per-feature distances between reference rows and batch rows, with `bins` bins *)
FeatDist2(rc, tc, bins) == Div(Hist(rc, bins, MinOf(rc, tc), MaxOf(rc, tc)), Hist(tc, bins, MinOf(rc, tc), MaxOf(rc, tc)))
FeatDists(ref, q, bins) == [f \in 1..hcfg.F |-> FeatDist2(Col(ref, f), Col(q, f), bins)]
Avg(fd) == NMul(NDiv(1, hcfg.F), NSumSeq(fd))

(* every index that may be "the" largest entry: none is definitely larger (entries within the comparison tolerance of each other tie - which
   of them a floating-point argmax lands on is a matter of the last bit) *)
ArgMaxSet(v) == { i \in 1..Len(v) : \A j \in 1..Len(v) : NCmp(v[j], v[i]) \in {-1, 0, 2} }
ArgMax(v) == CHOOSE i \in 1..Len(v) : (\A j \in 1..Len(v) : NCmp(v[j], v[i]) \in {-1, 0, 2}) /\ (\A j \in 1..(i - 1) : NCmp(v[j], v[i]) = -1)

Fresh == [total |-> 0, since |-> 0, st |-> "None", lam |-> 0, ref |-> <<>>, prev |-> "None", prevF |-> <<>>,
          eps |-> <<>>, toteps |-> "0.0", dist |-> "None", distF |-> <<>>, ceps |-> "None", beta |-> "None",
          info |-> [dists |-> <<>>, argmax |-> 0, cands |-> {}]]

(* one batch against the current reference; e0 as above.  Returns the SET of possible next states
   (more than one only when the comparison epsilon > beta is ambiguous). *)
Threshold(s1, eps1, tot1, d, testn) ==        \* s1: state with counters already advanced
  LET hat == NMul(NDiv(1, d), tot1)
      sd  == NSqrt(NDiv(NSumSeq([i \in 1..(Len(eps1) - 1) |-> Sq(NSub(eps1[i], hat))]), d))
  IN IF hcfg.stat = "tstat"
       THEN NAdd(hat, NMul(hcfg.ttab[Len(s1.ref) + testn - 2], NDiv(sd, NSqrt(d))))
       ELSE NAdd(hat, NMul(hcfg.sig, sd))
NoDrift(s1, q, fd, dist, eps1, tot1, ce, beta) ==
  [s1 EXCEPT !.prev = dist, !.prevF = fd, !.ref = s1.ref \o q, !.dist = dist, !.distF = fd,
             !.eps = eps1, !.toteps = tot1, !.ceps = ce, !.beta = beta]
Drifted(s1, q, fd, dist, eps1, tot1, ce, beta) ==
  [s1 EXCEPT !.st = "drift", !.ref = q, !.lam = s1.total, !.dist = dist, !.distF = fd,
             !.eps = eps1, !.toteps = tot1, !.ceps = ce, !.beta = beta,
             !.info = IF hcfg.F > 1
                        THEN [dists |-> fd, argmax |-> ArgMax([f \in 1..hcfg.F |-> NSub(fd[f], s1.prevF[f])]),
                              cands |-> ArgMaxSet([f \in 1..hcfg.F |-> NSub(fd[f], s1.prevF[f])])]
                        ELSE s1.info]
Decide(s1, q, fd, dist, eps1, tot1, ce, beta) ==
  { IF g THEN Drifted(s1, q, fd, dist, eps1, tot1, ce, beta) ELSE NoDrift(s1, q, fd, dist, eps1, tot1, ce, beta)
      : g \in GtSet(ce, beta) }
WithEps(s1, q, fd, dist, e0) ==
  LET boot == s1.since = 2 /\ hcfg.db # 3
      ce   == NMul(NAbs(NSub(dist, s1.prev)), "1.0")
      epsA == (IF boot THEN Append(s1.eps, e0) ELSE s1.eps) \o <<ce>>
      test == (s1.since >= 2 /\ hcfg.db # 3) \/ (s1.since >= 3 /\ hcfg.db = 3)
  IN IF ~test THEN { NoDrift(s1, q, fd, dist, epsA, s1.toteps, ce, "None") }
     ELSE LET drop == s1.since = 3 /\ hcfg.db # 3              \* the bootstrapped estimate leaves the statistics
              epsB == IF drop THEN Tail(epsA) ELSE epsA
              totB == IF drop THEN NSub(s1.toteps, epsA[1]) ELSE s1.toteps
              d    == IF boot THEN 1 ELSE s1.total - s1.lam - 1
              totC == NAdd(totB, epsB[Len(epsB) - 1])
          IN Decide(s1, q, fd, dist, epsB, totC, ce, Threshold(s1, epsB, totC, d, Len(q)))
Batch(s0, q, e0) ==
  LET s1 == [s0 EXCEPT !.total = s0.total + 1, !.since = s0.since + 1]
      fd == FeatDists(s0.ref, q, ISqrt(Len(s0.ref)))
  IN IF s1.since >= 2 THEN WithEps(s1, q, fd, Avg(fd), e0)
     ELSE { NoDrift(s1, q, fd, Avg(fd), s1.eps, s1.toteps, "None", "None") }

(* reset: statistics restart; with detect_batch = 1 the reference is halved by position and the second
   half is processed as a proxy first batch (counted like a batch) *)
Half(q) == Len(q) \div 2
ResetOp(s) ==
  LET s0 == [s EXCEPT !.since = 0, !.st = "None", !.eps = <<>>, !.toteps = "0.0"]
  IN IF hcfg.db = 1
       THEN CHOOSE r \in Batch([s0 EXCEPT !.ref = SubSeq(s.ref, 1, Half(s.ref))],
                               SubSeq(s.ref, Half(s.ref) + 1, Len(s.ref)), "None") : TRUE
       ELSE s0

InitWith(c) == hcfg = c /\ h = Fresh
SetReference(q) == /\ h' = ResetOp([h EXCEPT !.ref = q, !.lam = h.total]) /\ hcfg' = hcfg
Update(q, e0) == /\ h' \in Batch(IF h.st = "drift" THEN ResetOp(h) ELSE h, q, e0) /\ hcfg' = hcfg
UserReset == h' = ResetOp(h) /\ hcfg' = hcfg
=============================================================================
