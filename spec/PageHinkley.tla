--------------------------- MODULE PageHinkley ---------------------------
(* Page-Hinkley test as menelaus documents it; C04, also C01 C02 C11 C17.
   Input: the observation x (a number).  Recurrences in the documented order:
       mean_t = mean_{t-1} + (x - mean_{t-1}) / t
       sum_t  = ((sum_{t-1} + x) - mean_t) - delta          theta_t = threshold * mean_t
       min_t = min(min_{t-1}, sum_t)    max_t = max(max_{t-1}, sum_t)
       positive: diff = sum - min       negative: diff = max - sum
       drift iff diff > theta and t > burn_in          (t counts the samples of the current epoch) *)
EXTENDS Integers, Sequences, Num
VARIABLES cfg,      \* [burn, delta, thr, dir]  dir \in {"positive","negative"}
          total, since, st,
          mean, sum, mn, mx, diff, theta, chk, nrows   \* the last row of to_dataframe() and its row count
phvars == <<cfg, total, since, st, mean, sum, mn, mx, diff, theta, chk, nrows>>
InitWith(c) == /\ cfg = c /\ total = 0 /\ since = 0 /\ st = "None"
               /\ mean = "0.0" /\ sum = "0.0" /\ mn = "0.0" /\ mx = "0.0" /\ diff = "0.0" /\ theta = "0.0" /\ chk = FALSE /\ nrows = 0

Step(x) ==
  LET fresh == st = "drift"
      m0  == IF fresh THEN "0.0" ELSE mean
      s0  == IF fresh THEN "0.0" ELSE sum
      mn0 == IF fresh THEN "0.0" ELSE mn
      mx0 == IF fresh THEN "0.0" ELSE mx
  IN /\ since' = (IF fresh THEN 0 ELSE since) + 1
     /\ total' = total + 1
     /\ nrows' = (IF fresh THEN 0 ELSE nrows) + 1
     /\ cfg' = cfg
     /\ mean' = NAdd(m0, NDiv(NSub(x, m0), since'))
     /\ sum' = NSub(NSub(NAdd(s0, x), mean'), cfg.delta)
     /\ theta' = NMul(cfg.thr, mean')
     /\ \E lo \in LtSet(sum', mn0), hi \in GtSet(sum', mx0) :
          /\ mn' = (IF lo THEN sum' ELSE mn0)
          /\ mx' = (IF hi THEN sum' ELSE mx0)
     /\ diff' = (IF cfg.dir = "positive" THEN NSub(sum', mn') ELSE NSub(mx', sum'))
     /\ chk' \in GtSet(diff', theta')
     /\ st' = (IF chk' /\ since' > cfg.burn THEN "drift" ELSE "None")

(* user-initiated reset() *)
Reset == /\ since' = 0 /\ st' = "None" /\ mean' = "0.0" /\ sum' = "0.0" /\ mn' = "0.0" /\ mx' = "0.0" /\ nrows' = 0
         /\ UNCHANGED <<cfg, total, diff, theta, chk>>
(* a call refused by input validation right after a drift has already performed the pending
   automatic reset (the reset precedes validation); later outputs are the same either way *)
PendingReset == st = "drift" /\ Reset
==========================================================================
