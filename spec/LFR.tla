--------------------------------- MODULE LFR ---------------------------------
(* C06 - Linear Four Rates.  Input of an update: the confusion-matrix cell <<yt, yp>> in {0,1}^2.
   conf   the confusion matrix of the current epoch, one pseudo-count per cell at its start
   R      per rate the exponentially weighted statistic, updated only when that rate changed
   cache  the Monte-Carlo bounds already simulated: <<rounded rate, denominator>> |-> bounds record;
          it survives resets, and a key that was simulated once must give the same bounds again
   Each update receives `b`, for every rate the bounds record [lbw, ubw, lbd, ubd] the implementation
   used (field na = TRUE when unobserved), and `br`, brackets for a key's first use (environment). *)
EXTENDS Integers, Sequences, FiniteSets, Num
Rates == <<"tpr", "tnr", "ppv", "npv">>
VARIABLES lcfg,   \* [eta, burn, sub, rv, tracked (set of rate names)]
          total, since, st, recs, conf, R, cache
lfrvars == <<lcfg, total, since, st, recs, conf, R, cache>>
NoRecs == <<-1, -1>>
Ones == [tn |-> 1, fn |-> 1, fp |-> 1, tp |-> 1]
Half == [r \in {"tpr", "tnr", "ppv", "npv"} |-> "0.5"]
InitWith(c) == /\ lcfg = c /\ total = 0 /\ since = 0 /\ st = "None" /\ recs = NoRecs
               /\ conf = Ones /\ R = Half /\ cache = <<>>
(* numerator / denominator of a rate in a confusion matrix *)
Num_(r, c) == IF r \in {"tpr", "ppv"} THEN c.tp ELSE c.tn
Den(r, c) == CASE r = "tpr" -> c.tp + c.fn [] r = "tnr" -> c.tn + c.fp [] r = "ppv" -> c.fp + c.tp [] r = "npv" -> c.tn + c.fn
Changed(r, c0, c1) == Num_(r, c0) * Den(r, c1) # Num_(r, c1) * Den(r, c0)
Bump(c, yt, yp) == IF yp = 1 THEN (IF yt = 1 THEN [c EXCEPT !.tp = @ + 1] ELSE [c EXCEPT !.fp = @ + 1])
                   ELSE (IF yt = 1 THEN [c EXCEPT !.fn = @ + 1] ELSE [c EXCEPT !.tn = @ + 1])
Key(r, c) == <<NRound(NDiv(Num_(r, c), Den(r, c)), lcfg.rv), Den(r, c)>>
Known(k) == \E i \in 1..Len(cache) : cache[i][1] = k
Lookup(k) == (CHOOSE i \in 1..Len(cache) : cache[i][1] = k)
BoundsWellFormed(bb) == NCmp(bb.lbd, bb.ubd) \in {-1, 0, 2} /\ NCmp(bb.lbw, bb.ubw) \in {-1, 0, 2}
InBracket(v, iv) == NCmp(iv[1], v) \in {-1, 0, 2} /\ NCmp(v, iv[2]) \in {-1, 0, 2}
BracketOK(bb, br) == /\ InBracket(bb.lbw, br.lbw) /\ InBracket(bb.ubw, br.ubw)
                     /\ InBracket(bb.lbd, br.lbd) /\ InBracket(bb.ubd, br.ubd)
Outside(x, lo, hi) == { a \/ b : a \in LtSet(x, lo), b \in GtSet(x, hi) }

Tested(s) == s > lcfg.burn /\ s % lcfg.sub = 0
(* possible (warn, alarm) flags of rate r, given its statistic x and the bounds record bb (bb.na: unobserved) *)
Flags(x, bb) == IF bb.na THEN { <<w, a>> : w \in BOOLEAN, a \in BOOLEAN }
                ELSE { <<w, a>> : w \in Outside(x, bb.lbw, bb.ubw), a \in Outside(x, bb.lbd, bb.ubd) }
(* the states the flag sets of the tracked rates admit (fl: rate |-> set of <<warn, alarm>> pairs) *)
Outcomes(fl) ==
  LET canAlarm  == \E r \in DOMAIN fl : \E p \in fl[r] : p[2]
      canQuiet  == \A r \in DOMAIN fl : \E p \in fl[r] : ~p[2]
      canWarn   == \E r \in DOMAIN fl : \E p \in fl[r] : p[1]
      canSilent == \A r \in DOMAIN fl : \E p \in fl[r] : ~p[1]
  IN (IF canAlarm THEN {"drift"} ELSE {})
     \cup (IF canQuiet /\ canWarn THEN {"warning"} ELSE {})
     \cup (IF canQuiet /\ canSilent THEN {"None"} ELSE {})
RECURSIVE AddKeys(_, _, _, _)
AddKeys(ch, c1, b, i) ==      \* remember the bounds of every tracked rate whose key is new
  IF i > 4 THEN ch
  ELSE LET r == Rates[i] IN
       IF r \in lcfg.tracked /\ ~b[r].na /\ ~(\E j \in 1..Len(ch) : ch[j][1] = Key(r, c1))
         THEN AddKeys(Append(ch, <<Key(r, c1), b[r]>>), c1, b, i + 1)
         ELSE AddKeys(ch, c1, b, i + 1)

Step(yt, yp, b, br) ==
  LET fresh == st = "drift"
      c0  == IF fresh THEN Ones ELSE conf
      R0  == IF fresh THEN Half ELSE R
      rc0 == IF fresh THEN NoRecs ELSE recs
      c1  == Bump(c0, yt, yp)
      agree == IF yt = yp THEN 1 ELSE 0
  IN /\ since' = (IF fresh THEN 0 ELSE since) + 1 /\ total' = total + 1 /\ lcfg' = lcfg
     /\ conf' = c1
     /\ R' = [r \in DOMAIN R0 |-> IF r \in lcfg.tracked /\ Changed(r, c0, c1)
                                     THEN NAdd(NMul(lcfg.eta, R0[r]), NMul(NSub(1, lcfg.eta), agree)) ELSE R0[r]]
     /\ IF Tested(since')
          THEN /\ \A r \in lcfg.tracked : ~b[r].na =>
                     /\ BoundsWellFormed(b[r])
                     /\ IF Known(Key(r, c1)) THEN b[r] = cache[Lookup(Key(r, c1))][2]      \* cache is stable
                        ELSE \E r2 \in lcfg.tracked :          \* first use (possibly shared by several rates of this step): inside the bracket
                               Key(r2, c1) = Key(r, c1) /\ b[r2] = b[r] /\ BracketOK(b[r2], br[r2])
               /\ cache' = AddKeys(cache, c1, b, 1)
               /\ st' \in Outcomes([r \in lcfg.tracked |-> Flags(R'[r], b[r])])
          ELSE cache' = cache /\ st' = "None"
     /\ recs' = (IF st' = "None" THEN rc0
                 ELSE IF st' = "warning" THEN (IF rc0[1] = -1 THEN <<total, rc0[2]>> ELSE rc0)
                 ELSE <<(IF rc0[1] = -1 THEN total ELSE rc0[1]), total>>)
(* reset() called by the user: the epoch restarts (statistics, confusion matrix, recommendation); the Monte-Carlo cache and the
   lifetime counter survive.  The test schedule (every sub-th sample after burn-in) is counted within the NEW epoch. *)
UserReset == /\ since' = 0 /\ st' = "None" /\ recs' = NoRecs /\ conf' = Ones /\ R' = Half
             /\ UNCHANGED <<lcfg, total, cache>>
=============================================================================
