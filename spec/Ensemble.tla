------------------------------ MODULE Ensemble ------------------------------
(* C12 - an ensemble is its election applied to members that run exactly as if alone.
   Members are abstract detectors (the lifecycle machine with an outcome chosen by the
   environment); the ensemble updates every member in insertion order with the data its selector
   picks, then sets its own state to the election's verdict over the member states (in insertion
   order), then counts the update like any detector.  reset / set_reference reach every member. *)
EXTENDS Election
VARIABLES ecfg,      \* [n, kind ("majority"|"min"|"ordered"|"confirmed"), a, c]  (confirmed: a = sensitivity, c = wait_time)
          mstate, mtotal, msince,   \* per member
          estate, etotal, esince,   \* the ensemble's own
          ecnt                      \* ConfirmedElection's counters (all 0 for the other kinds)
ensvars == <<ecfg, mstate, mtotal, msince, estate, etotal, esince, ecnt>>
Elect(cf, cnt, v) ==
  CASE cf.kind = "majority"  -> Majority(v)
    [] cf.kind = "min"       -> MinApproval(cf.a, v)
    [] cf.kind = "ordered"   -> OrderedApproval(cf.a, cf.c, v)
    [] cf.kind = "confirmed" -> ConfVerdict(cf.a, cnt, v)
ElectCnt(cf, cnt, v) == IF cf.kind = "confirmed" THEN ConfNext(cf.c, cnt, v) ELSE cnt
InitWith(cf) == /\ ecfg = cf
                /\ mstate = [i \in 1..cf.n |-> "None"] /\ mtotal = [i \in 1..cf.n |-> 0]
                /\ msince = [i \in 1..cf.n |-> 0]
                /\ estate = "None" /\ etotal = 0 /\ esince = 0 /\ ecnt = [i \in 1..cf.n |-> 0]
(* every member is updated once (its new state v[i] is its own business), then the election *)
Update(v) ==
  /\ mstate' = v
  /\ mtotal' = [i \in 1..ecfg.n |-> mtotal[i] + 1]
  /\ msince' = [i \in 1..ecfg.n |-> IF mstate[i] = "drift" THEN 1 ELSE msince[i] + 1]
  /\ estate' = Elect(ecfg, ecnt, v)
  /\ ecnt' = ElectCnt(ecfg, ecnt, v)
  /\ etotal' = etotal + 1 /\ esince' = esince + 1      \* own counters restart only on an explicit reset
  /\ ecfg' = ecfg
Reset ==
  /\ mstate' = [i \in 1..ecfg.n |-> "None"] /\ msince' = [i \in 1..ecfg.n |-> 0]
  /\ estate' = "None" /\ esince' = 0
  /\ UNCHANGED <<ecfg, mtotal, etotal, ecnt>>
=============================================================================
