----------------------------- MODULE MC_Ensemble -----------------------------
EXTENDS Ensemble, TLC
CONSTANTS Depth, N
VARIABLES nupd, lastv
vars == <<ensvars, nupd, lastv>>
Configs == { [n |-> k, kind |-> kd, a |-> a, c |-> c] : k \in 1..N, kd \in {"majority", "min", "ordered", "confirmed"},
             a \in 1..2, c \in 0..1 }
Init == (\E cf \in Configs : InitWith(cf)) /\ nupd = 0 /\ lastv = <<>>
Upd == \E v \in [1..ecfg.n -> States] : Update(v) /\ nupd' = nupd + 1 /\ lastv' = v
Rst == Reset /\ UNCHANGED nupd /\ lastv' = <<>>
Next == Upd \/ Rst
Spec == Init /\ [][Next]_vars
Bound == TLCGet("level") <= Depth
CountsUpdates == etotal = nupd /\ \A i \in 1..ecfg.n : mtotal[i] = nupd
OwnSince == esince <= etotal
FanOut == lastv = <<>> => (\A i \in 1..ecfg.n : mstate[i] = "None" /\ msince[i] = 0) /\ estate = "None" /\ esince = 0
(* the verdict of the stateless elections is the rule applied to the member states *)
ElectOK == lastv # <<>> =>
             /\ ecfg.kind = "majority" => estate = MajorityRule(mstate)
             /\ ecfg.kind = "min" => estate = MinApprovalRule(ecfg.a, mstate)
             /\ ecfg.kind = "ordered" /\ ecfg.a + ecfg.c > 0 => estate = OrderedRule(ecfg.a, ecfg.c, mstate)
             /\ ecfg.kind # "confirmed" => estate \in {"drift", "None"}
CounterBound == \A i \in 1..ecfg.n : ecnt[i] \in 0..ecfg.c
=============================================================================
