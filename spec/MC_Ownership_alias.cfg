SPECIFICATION Spec
CONSTANT Buffers = {b1, b2}
CONSTANT AllowAlias = TRUE
CONSTRAINT Bound
INVARIANT DivergenceMeansAlias
CHECK_DEADLOCK FALSE
