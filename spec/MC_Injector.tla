----------------------------- MODULE MC_Injector -----------------------------
(* Exhaustive check of the deterministic injectors' algebra over ALL R x C matrices on {0,1,2}, all
   windows 0 <= from <= to <= R and all column / class choices (ASSUME), plus a tiny state machine that
   applies injectors in sequence (frame conditions compose). *)
EXTENDS Injector, TLC
CONSTANTS R, C
Vals == {0, 1, 2}
Mats == [1..R -> [1..C -> Vals]]
Windows == { <<f, t>> : f \in 0..R, t \in 0..R }      \* includes empty (t <= f) and full windows
Algebra ==
  \A m \in Mats : \A w \in Windows :
    LET f == w[1]  t == w[2] IN
    /\ \A c1 \in 1..C, c2 \in 1..C :
         /\ Swap(Swap(m, f, t, c1, c2), f, t, c1, c2) = m
         /\ Frame(m, Swap(m, f, t, c1, c2), f, t, {c1, c2})
         /\ \A r \in 1..R : InWin(r, f, t) => Swap(m, f, t, c1, c2)[r][c1] = m[r][c2] /\ Swap(m, f, t, c1, c2)[r][c2] = m[r][c1]
    /\ \A col \in 1..C, k1 \in Vals, k2 \in Vals :
         /\ LabelSwap(LabelSwap(m, f, t, col, k1, k2), f, t, col, k1, k2) = m
         /\ Frame(m, LabelSwap(m, f, t, col, k1, k2), f, t, {col})
         /\ \A new \in Vals \cup {7} :
              /\ LabelJoin(LabelJoin(m, f, t, col, k1, k2, new), f, t, col, k1, k2, new)
                   = LabelJoin(m, f, t, col, k1, k2, new) \/ new \in {k1, k2}
              /\ Frame(m, LabelJoin(m, f, t, col, k1, k2, new), f, t, {col})
              /\ \A r \in 1..R : InWin(r, f, t) =>
                   LabelJoin(m, f, t, col, k1, k2, new)[r][col] = (IF m[r][col] \in {k1, k2} THEN new ELSE m[r][col])
    /\ \A col \in 1..C :
         /\ Frame(m, Shift(m, f, t, col, 2, 1), f, t, {col})
         /\ \A r \in 1..R : InWin(r, f, t) /\ f < t =>
              Close(NSub(Shift(m, f, t, col, 2, 1)[r][col], m[r][col]), NMul(2, NAdd(1, NMeanSeq(WinCol(m, f, t, col)))))
ASSUME Algebra
VARIABLES m, steps
Init == m \in Mats /\ steps = 0
Apply == /\ steps < 2
         /\ \E w \in Windows, c1 \in 1..C, c2 \in 1..C :
              \/ m' = Swap(m, w[1], w[2], c1, c2)
              \/ m' = LabelSwap(m, w[1], w[2], c1, 0, 1)
              \/ m' = LabelJoin(m, w[1], w[2], c1, 0, 1, 2)
         /\ steps' = steps + 1
Spec == Init /\ [][Apply]_<<m, steps>>
ShapeKept == Len(m) = R /\ \A r \in 1..R : Len(m[r]) = C
=============================================================================
