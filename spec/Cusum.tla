------------------------------- MODULE Cusum -------------------------------
(* CUSUM as menelaus documents it; C04, also C01 C02 C17.   Input: the observation x.
     target / sd: given, or estimated from the first burn_in observations (at sample burn_in), or
                  re-estimated from the last burn_in observations on the update that follows a drift
     z = (x - target) / sd   on the observation JUST SUPPLIED
     s_h' = max(0, s_h + z - delta)      s_l' = max(0, s_l - delta - z)      (both 0 after a drift)
     alarm iff since > burn_in and (by direction) s_h > threshold / s_l > threshold
   Named deviation of the code that the properties do not forbid: a zero standard deviation past
   the burn-in makes update raise ValueError AFTER the call was counted (RejectZeroSd). *)
EXTENDS Integers, Sequences, Num
VARIABLES cfg,      \* [burn, delta, thr, dir ("both"|"positive"|"negative"), target0, sd0 ("None" or number)]
          total, since, st,
          target, sd,        \* "None" until known
          sh, sl,
          lastB              \* the (at most burn_in) most recent observations
cusumvars == <<cfg, total, since, st, target, sd, sh, sl, lastB>>
InitWith(c) == /\ cfg = c /\ total = 0 /\ since = 0 /\ st = "None"
               /\ target = c.target0 /\ sd = c.sd0 /\ sh = "0.0" /\ sl = "0.0" /\ lastB = <<>>
LastN(q, n) == IF Len(q) <= n THEN q ELSE SubSeq(q, Len(q) - n + 1, Len(q))
Pos(v) == IF NSign(v) = 1 THEN v ELSE "0.0"                  \* max(0, v); a NaN gives 0

(* what the update computes, given the epoch-start values t1/s1 of target and sd *)
Core(x, t1, s1, h0, l0) ==
  /\ lastB' = LastN(Append(lastB, x), cfg.burn)
  /\ IF t1 = "None" /\ since' < cfg.burn
       THEN target' = "None" /\ sd' = s1 /\ sh' = "0.0" /\ sl' = "0.0" /\ st' = "None"
       ELSE /\ target' = (IF t1 = "None" THEN NMeanSeq(lastB') ELSE t1)
            /\ sd'     = (IF t1 = "None" THEN NPopStdSeq(lastB') ELSE s1)
            /\ LET z == NDiv(NSub(x, target'), sd') IN
               /\ sh' = Pos(NSub(NAdd(h0, z), cfg.delta))
               /\ sl' = Pos(NSub(NSub(l0, cfg.delta), z))
            /\ IF since' > cfg.burn
                 THEN \E up \in GtSet(sh', cfg.thr), dn \in GtSet(sl', cfg.thr) :
                        st' = IF (cfg.dir = "both" /\ (up \/ dn)) \/ (cfg.dir = "positive" /\ up)
                                 \/ (cfg.dir = "negative" /\ dn) THEN "drift" ELSE "None"
                 ELSE st' = "None"

Step(x) ==
  LET fresh == st = "drift"
      t1 == IF fresh THEN NMeanSeq(lastB) ELSE target
      s1 == IF fresh THEN NPopStdSeq(lastB) ELSE sd
      h0 == IF fresh THEN "0.0" ELSE sh
      l0 == IF fresh THEN "0.0" ELSE sl
  IN /\ since' = (IF fresh THEN 0 ELSE since) + 1
     /\ total' = total + 1 /\ cfg' = cfg
     /\ ~(s1 # "None" /\ NSign(s1) = 0 /\ since' > cfg.burn)
     /\ Core(x, t1, s1, h0, l0)

(* The update that ends a first burn-in which the caller interrupted with reset() (target still unknown): which observations "the first burn_in
   observations" are is then not defined by the documentation, so target and deviation of that one step are ENVIRONMENT values (tg, sdv);
   everything else - the sums from the observation just supplied, no alarm inside the burn-in - is the ordinary step *)
StepGiven(x, tg, sdv) ==
  /\ st # "drift" /\ target = "None" /\ since + 1 = cfg.burn
  /\ since' = since + 1 /\ total' = total + 1 /\ cfg' = cfg
  /\ Core(x, tg, sdv, sh, sl)

(* the counted-then-raised call: zero deviation past the burn-in *)
RejectZeroSd(x) ==
  LET fresh == st = "drift"
      t1 == IF fresh THEN NMeanSeq(lastB) ELSE target
      s1 == IF fresh THEN NPopStdSeq(lastB) ELSE sd
  IN /\ since' = (IF fresh THEN 0 ELSE since) + 1
     /\ total' = total + 1 /\ cfg' = cfg
     /\ s1 # "None" /\ NSign(s1) = 0 /\ since' > cfg.burn
     /\ lastB' = LastN(Append(lastB, x), cfg.burn)
     /\ target' = t1 /\ sd' = s1 /\ st' = "None"
     /\ sh' = (IF fresh THEN "0.0" ELSE sh) /\ sl' = (IF fresh THEN "0.0" ELSE sl)
(* user-initiated reset(): the sums restart, the current target / deviation are kept *)
Reset == /\ since' = 0 /\ st' = "None" /\ sh' = "0.0" /\ sl' = "0.0" /\ UNCHANGED <<cfg, total, target, sd, lastB>>
(* a call refused by input validation right after a drift has already re-estimated and reset *)
PendingReset == /\ st = "drift" /\ since' = 0 /\ st' = "None" /\ sh' = "0.0" /\ sl' = "0.0"
                /\ target' = NMeanSeq(lastB) /\ sd' = NPopStdSeq(lastB) /\ UNCHANGED <<cfg, total, lastB>>
============================================================================
