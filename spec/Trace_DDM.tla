---------------------------- MODULE Trace_DDM ----------------------------
(* Trace validation for DDM: event = one public update call of the real class,
   ev.c = 1 iff y_pred # y_true, projection = total/since/state/recs after the call. *)
EXTENDS DDM, TraceLib
tvars == <<ddmvars, tid, l>>
Init == /\ tid \in 1..NTr /\ l = 1
        /\ InitWith(Traces[tid].cfg)
Update == /\ More /\ Ev.op = "update"
          /\ Step(Ev.c)
          /\ Chk("total", total', Ev.total) /\ Chk("since", since', Ev.since)
          /\ Chk("state", st', Ev.state) /\ Chk("recs", recs', Ev.recs)
          /\ Adv
Counters == /\ Chk("total", total', Ev.total) /\ Chk("since", since', Ev.since)
            /\ Chk("state", st', Ev.state) /\ Chk("recs", recs', Ev.recs)
UserReset == /\ More /\ Ev.op = "reset" /\ Reset /\ Counters /\ Adv
Refused == /\ More /\ Ev.op = "bad" /\ (UNCHANGED ddmvars \/ PendingReset) /\ Counters /\ Adv
Next == Update \/ UserReset \/ Refused
Spec == Init /\ [][Next]_tvars
==========================================================================
