SPECIFICATION GSpec
CONSTANT Depth = 4
CONSTRAINT Bound
INVARIANT Emit
CHECK_DEADLOCK FALSE
