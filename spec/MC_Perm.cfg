SPECIFICATION Spec
INVARIANT HdmInv
INVARIANT KdqInv
INVARIANT NnInv
CHECK_DEADLOCK FALSE
