SPECIFICATION GenSpec
CONSTANT N = 4
CONSTANT MaxWait = 3
CHECK_DEADLOCK FALSE
