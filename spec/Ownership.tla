------------------------------- MODULE Ownership -------------------------------
(* C15 - who may read and write what.  A deliberately small protocol model whose purpose is to make the
   experiment of the conformance check meaningful: the caller owns buffers; a call hands one to the
   detector (callee), which must Copy what it wants to keep; afterwards the caller may overwrite the
   buffer.  `retained` holds what the callee reads later, as <<buffer, version>> for a live reference
   (deviation Alias) or <<"copy", contents>> for a private copy.  A later Output exposes a divergence
   between the aliasing run and the private-copy run exactly when a live reference to an overwritten
   buffer is read - which is why comparing the two real runs (Product/Equal) decides the property. *)
EXTENDS Integers, FiniteSets
CONSTANTS Buffers, AllowAlias
VARIABLES version,     \* caller's buffers: how often each was overwritten
          retained,    \* what the callee kept: set of [buf, seen (version at the call), live (BOOLEAN)]
          written,     \* buffers the callee wrote to
          diverged     \* an output has depended on caller data that changed after the call
vars == <<version, retained, written, diverged>>
Init == version = [b \in Buffers |-> 0] /\ retained = {} /\ written = {} /\ diverged = FALSE
Call(b) == /\ \/ retained' = retained \cup {[buf |-> b, seen |-> version[b], live |-> FALSE]}      \* Copy
              \/ AllowAlias /\ retained' = retained \cup {[buf |-> b, seen |-> version[b], live |-> TRUE]}   \* deviation: Alias
              \/ retained' = retained                                                                   \* keep nothing
           /\ UNCHANGED <<version, written, diverged>>
CallerOverwrite(b) == version' = [version EXCEPT ![b] = @ + 1] /\ UNCHANGED <<retained, written, diverged>>
Output == /\ diverged' = (diverged \/ \E r \in retained : r.live /\ version[r.buf] # r.seen)
          /\ UNCHANGED <<version, retained, written>>
Next == (\E b \in Buffers : Call(b) \/ CallerOverwrite(b)) \/ Output
Spec == Init /\ [][Next]_vars
Bound == \A b \in Buffers : version[b] <= 2
NoAlias == \A r \in retained : ~r.live
NoWrite == written = {}
Indifferent == ~diverged
(* the experiment is complete: if an output ever diverges there was a live reference *)
DivergenceMeansAlias == diverged => \E r \in retained : r.live
=============================================================================
