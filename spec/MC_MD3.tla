------------------------------- MODULE MC_MD3 -------------------------------
(* All interleavings of the seven call kinds up to Depth, from two initial references, for
   oracle lengths 2..3 and two sensitivities (K = 2 folds; fold tables from sklearn KFold(random_state=42)). *)
EXTENDS MD3, TLC
CONSTANTS Depth
VARIABLES lastCall, labelsGiven
vars == <<md3vars, lastCall, labelsGiven>>
Folds2 == [n \in 2..4 |-> IF n = 2 THEN <<2, 1>> ELSE IF n = 3 THEN <<1, 1, 2>> ELSE <<2, 1, 2, 1>>]
Refs == { <<<<1, 1>>, <<0, 1>>, <<0, 1>>, <<1, 0>>>>, <<<<0, 1>>, <<0, 1>>, <<1, 1>>, <<0, 0>>>> }
Configs == { [sens |-> s, L |-> l, K |-> 2, folds |-> Folds2] : s \in {"0.5", "2.0"}, l \in {2, 3} }
Init == /\ \E c \in Configs : InitWith(c)
        /\ lastCall = "init" /\ labelsGiven = 0
Ref == /\ lastCall = "init" /\ \E r \in Refs : SetReference(r)
       /\ lastCall' = "set_reference" /\ UNCHANGED labelsGiven
(* the user hands over a new reference later on - also in the middle of an oracle round: the statistics and the tracked density are re-based,
   the protocol state (waiting or not, the labelled samples accepted so far, the reported state, the counters) is what it was *)
ReRef == /\ lastCall # "init" /\ \E r \in Refs : SetReference(r)
         /\ lastCall' = "set_reference" /\ UNCHANGED labelsGiven
Upd == /\ lastCall # "init" /\ \E m \in {0, 1} : Update(m)
       /\ lastCall' = "update" /\ labelsGiven' = 0
UpdRefused == /\ lastCall # "init" /\ \E rows \in {1, 2} : UpdateRefused(rows)
              /\ lastCall' = "update refused" /\ UNCHANGED labelsGiven
Lab == /\ lastCall # "init" /\ \E m \in {0, 1}, c \in {0, 1} : GiveLabel(m, c, Append(oracle, <<m, c>>))
       /\ lastCall' = "label" /\ labelsGiven' = (IF mode' = "Idle" THEN 0 ELSE labelsGiven + 1)
LabRefused == /\ lastCall # "init" /\ \E rows \in {1, 2}, ok \in BOOLEAN : LabelRefused(rows, ok)
              /\ lastCall' = "label refused" /\ UNCHANGED labelsGiven
Next == Ref \/ ReRef \/ Upd \/ UpdRefused \/ Lab \/ LabRefused
Spec == Init /\ [][Next]_vars
FairSpec == Spec /\ WF_vars(Lab)
Bound == TLCGet("level") <= Depth

TypeOK == /\ st \in {"None", "warning", "drift"} /\ mode \in {"Idle", "Waiting"} /\ since <= total
          /\ Len(oracle) < mcfg.L /\ Len(oracle) = labelsGiven
(* waiting exactly between the warning and the L-th label *)
WaitingMeans == /\ (mode = "Waiting" => st \in {"warning", "None"})
                /\ (st = "warning" => mode = "Waiting" /\ oracle = <<>>)
                /\ (mode = "Idle" => oracle = <<>>)
(* drift is only ever reported by the label call that completes the oracle set *)
DriftOnlyFromLabels == [][ st' = "drift" /\ st # "drift" => lastCall' = "label" /\ mode = "Waiting" /\ mode' = "Idle"
                                                           /\ Len(oracle) + 1 = mcfg.L ]_vars
(* refused calls change nothing; an update is accepted iff idle, a label iff waiting *)
RefusalRules == [][ /\ (lastCall' = "update refused" \/ lastCall' = "label refused" => UNCHANGED md3vars)
                    /\ (lastCall' = "update" => mode = "Idle")
                    /\ (lastCall' = "label" => mode = "Waiting") ]_vars
(* after the confirming label the detector tracks from the new reference density *)
NewReference == [][ lastCall' = "label" /\ mode' = "Idle" => cur' = md' /\ refn' = mcfg.L ]_vars
CountsUpdatesOnly == [][ lastCall' # "update" => total' = total /\ since' = since ]_vars
(* a new reference touches nothing but the reference statistics and the tracked density *)
ReRefKeepsProtocol == [][ lastCall' = "set_reference" => UNCHANGED <<mode, oracle, st, total, since>> /\ cur' = md' ]_vars
(* every wait ends if labels keep coming *)
Progress == (mode = "Waiting") ~> (mode = "Idle")
(* liveness run: updates are cut off after three (labels never change the counters, so no waiting state is hidden) *)
TotalBound == total <= 3
=============================================================================
