---------------------------- MODULE KdqDetector ----------------------------
(* C09 - KdqTreeStreaming and KdqTreeBatch on top of the kdq-tree partitioner (module KdqTree).
   The bootstrap critical value is an ENVIRONMENT value: whenever a reference tree is (re)built the
   action receives `c`, a record [crit, lo, hi]: crit is the value the implementation drew ("NA"
   if it could not be observed) and [lo, hi] a bracket, computed independently, in which the
   (1 - alpha) quantile of the documented bootstrap distribution must lie.

   streaming: the first W samples of an epoch form the reference (tree built, epoch counter
              restarted at 0); the following samples are accumulated in the test counts; silent
              until W test samples; from then on, per sample, above := KL > crit,
              run := IF above THEN run + 1 ELSE 0  ("in a row"), drift iff run > persistence * W;
              after a drift everything starts over.
   batch:     set_reference builds the tree; each batch is filled with reset; drift iff KL > crit;
              the drifted batch becomes the reference on the next update. *)
EXTENDS KdqTree
NoTree == [none |-> TRUE]       \* "no reference tree yet" (a record, so that it compares with trees)
VARIABLES dcfg,   \* [kind, W, pers, ub, lbnum, lbden]
          total, since, st,
          tree, refbuf, testn, run,
          crit, clo, chi,      \* critical value and its bracket
          pending,             \* batch: the drifted batch that becomes the next reference
          dist                 \* last divergence computed ("None" before the first)
kdvars == <<dcfg, total, since, st, tree, refbuf, testn, run, crit, clo, chi, pending, dist>>
InitWith(c) == /\ dcfg = c /\ total = 0 /\ since = 0 /\ st = "None" /\ tree = NoTree /\ refbuf = <<>>
               /\ testn = 0 /\ run = 0 /\ crit = "None" /\ clo = "None" /\ chi = "None" /\ pending = <<>>
               /\ dist = "None"
BuildRef(q) == Build(q, dcfg.ub, MinCuts(q, dcfg.lbnum, dcfg.lbden), 0)
BracketOK(c) == c.crit = "NA" \/ (NCmp(c.lo, c.crit) \in {-1, 0, 2} /\ NCmp(c.crit, c.hi) \in {-1, 0, 2})
(* outcomes of `d > critical value` the specification admits *)
AboveSet(d, cr, lo, hi) ==
  IF cr # "NA" THEN GtSet(d, cr)
  ELSE IF DefGt(d, hi) THEN {TRUE} ELSE IF DefLt(d, lo) THEN {FALSE} ELSE {TRUE, FALSE}

(* ------------------------------------------------------------------ streaming *)
StreamStep(x, c) ==
  LET fresh == st = "drift"
      tree0 == IF fresh THEN NoTree ELSE tree
      buf0  == IF fresh THEN <<>> ELSE refbuf
      tn0   == IF fresh THEN 0 ELSE testn
      run0  == IF fresh THEN 0 ELSE run
      s0    == IF fresh THEN 0 ELSE since
  IN /\ total' = total + 1 /\ UNCHANGED <<dcfg, pending>>
     /\ IF tree0 = NoTree
          THEN IF Len(buf0) + 1 = dcfg.W
                 THEN /\ tree' = BuildRef(Append(buf0, x)) /\ refbuf' = <<>> /\ since' = 0
                      /\ BracketOK(c) /\ crit' = c.crit /\ clo' = c.lo /\ chi' = c.hi
                      /\ testn' = 0 /\ run' = 0 /\ st' = "None" /\ dist' = "None"
                 ELSE /\ tree' = NoTree /\ refbuf' = Append(buf0, x) /\ since' = s0 + 1
                      /\ crit' = (IF fresh THEN "None" ELSE crit) /\ clo' = (IF fresh THEN "None" ELSE clo)
                      /\ chi' = (IF fresh THEN "None" ELSE chi)
                      /\ testn' = 0 /\ run' = 0 /\ st' = "None" /\ dist' = (IF fresh THEN "None" ELSE dist)
          ELSE /\ tree' = Fill(tree0, <<x>>, 2, FALSE) /\ refbuf' = buf0 /\ since' = s0 + 1
               /\ testn' = tn0 + 1 /\ UNCHANGED <<crit, clo, chi>>
               /\ IF testn' >= dcfg.W
                    THEN /\ dist' = KLDist(tree', 1, 2)
                         /\ \E above \in AboveSet(dist', crit, clo, chi) :
                              /\ run' = (IF above THEN run0 + 1 ELSE 0)
                              /\ \E over \in GtSet(run', NMul(dcfg.pers, dcfg.W)) :
                                   st' = (IF above /\ over THEN "drift" ELSE "None")
                    ELSE dist' = dist /\ run' = run0 /\ st' = "None"
(* user reset(): everything starts over with a new reference window; the total is kept *)
StreamReset == /\ since' = 0 /\ st' = "None" /\ tree' = NoTree /\ refbuf' = <<>> /\ testn' = 0 /\ run' = 0
               /\ crit' = "None" /\ clo' = "None" /\ chi' = "None" /\ dist' = "None" /\ pending' = <<>>      \* (a batch that drifted is dropped with the rest)
               /\ UNCHANGED <<dcfg, total>>

(* ------------------------------------------------------------------ batch *)
SetReference(q, c) ==
  /\ tree' = BuildRef(q) /\ BracketOK(c) /\ crit' = c.crit /\ clo' = c.lo /\ chi' = c.hi
  /\ since' = 0 /\ st' = "None" /\ dist' = "None" /\ pending' = <<>>
  /\ UNCHANGED <<dcfg, total, refbuf, testn, run>>
(* c0: critical value of the re-built reference when the previous batch drifted (ignored otherwise) *)
BatchStep(q, c0) ==
  LET fresh == st = "drift"
      tree0 == IF fresh THEN BuildRef(pending) ELSE tree
      cr0   == IF fresh THEN c0.crit ELSE crit
      lo0   == IF fresh THEN c0.lo ELSE clo
      hi0   == IF fresh THEN c0.hi ELSE chi
  IN /\ total' = total + 1 /\ UNCHANGED <<dcfg, refbuf, testn, run>>
     /\ (fresh => BracketOK(c0))
     /\ IF tree0 = NoTree
          THEN \* named behaviour: the first update without set_reference is used as the reference
               /\ tree' = BuildRef(q) /\ BracketOK(c0) /\ crit' = c0.crit /\ clo' = c0.lo /\ chi' = c0.hi
               /\ since' = 0 /\ st' = "None" /\ dist' = "None" /\ pending' = <<>>
          ELSE /\ tree' = Fill(tree0, q, 2, TRUE) /\ crit' = cr0 /\ clo' = lo0 /\ chi' = hi0
               /\ since' = (IF fresh THEN 0 ELSE since) + 1
               /\ dist' = KLDist(tree', 1, 2)
               /\ \E above \in AboveSet(dist', cr0, lo0, hi0) :
                    /\ st' = (IF above THEN "drift" ELSE "None")
                    /\ pending' = (IF above THEN q ELSE <<>>)
=============================================================================
