------------------------------ MODULE MC_STEPD ------------------------------
(* All binary outcome sequences up to Depth, all Configs; twin restarted after every drift (C02). *)
EXTENDS STEPD, TLC
CONSTANTS Depth
VARIABLES hs, hin,    \* states reported / outcomes supplied in the current epoch (history variables)
          bcfg, btotal, bsince, bst, brecs, bwin, br, bfresh, off
\* z(0.95)=1.6448536269514722, z(0.997)=2.7477813854449926, (0.1 and 0.05 avoid exact ties, which would let the two instances branch apart) z(0.7)=0.5244005127080407
Configs == { [w |-> n, zw |-> p[1], zd |-> p[2]] :
               n \in {1, 2, 3}, p \in {<<"1.6448536269514722", "2.7477813854449926">>,
                                       <<"0.1", "0.5244005127080407">>, <<"0.05", "0.05">>} }
B == INSTANCE STEPD WITH cfg <- bcfg, total <- btotal, since <- bsince, st <- bst, recs <- brecs,
                         win <- bwin, r <- br
bvars == <<bcfg, btotal, bsince, bst, brecs, bwin, br>>
vars == <<stepdvars, hs, hin, bvars, bfresh, off>>
Init == /\ \E c \in Configs : InitWith(c) /\ B!InitWith(c)
        /\ hs = <<>> /\ hin = <<>> /\ bfresh = FALSE /\ off = 0
Update == \E a \in {0, 1} :
            /\ (st = "drift" => bfresh)
            /\ Step(a) /\ B!Step(a)
            /\ hs' = (IF st = "drift" THEN <<>> ELSE hs) \o <<st'>>
            /\ hin' = (IF st = "drift" THEN <<>> ELSE hin) \o <<a>>
            /\ bfresh' = FALSE /\ off' = off
TwinRestart == /\ st = "drift" /\ ~bfresh
               /\ bcfg' = cfg /\ btotal' = 0 /\ bsince' = 0 /\ bst' = "None" /\ brecs' = NoRecs
               /\ bwin' = <<>> /\ br' = 0
               /\ bfresh' = TRUE /\ off' = total
               /\ UNCHANGED <<stepdvars, hs, hin>>
UReset == /\ st # "drift" /\ total > 0 /\ Reset /\ B!Reset /\ hs' = <<>> /\ hin' = <<>> /\ UNCHANGED <<bfresh, off>>
Next == Update \/ TwinRestart \/ UReset
Spec == Init /\ [][Next]_vars
Bound == TLCGet("level") <= Depth

LC == INSTANCE Lifecycle WITH ltab <- [restart |-> 1, incs |-> {1}, hasrecs |-> TRUE, epochbound |-> TRUE, refrestart |-> FALSE],
                              state <- st, warm <- (since >= 2 * cfg.w)
LCSpec == LC!Spec
TypeOK == LC!TypeOK
NoEarly == LC!NoEarly
RecsRange == LC!RecsRange
(* the window is the last w outcomes of the epoch and r counts the correct ones before it *)
WindowIs == /\ Len(hin) = since
            /\ win = SubSeq(hin, (IF since > cfg.w THEN since - cfg.w + 1 ELSE 1), since)
            /\ r = SumSeq(SubSeq(hin, 1, (IF since > cfg.w THEN since - cfg.w ELSE 0)))
(* recs = <<start of the current uninterrupted warning/drift run, current index>> *)
RunStart == CHOOSE i \in 1..Len(hs) : (\A j \in i..Len(hs) : hs[j] # "None") /\ (i = 1 \/ hs[i-1] = "None")
RecsRun == IF st = "None" THEN recs = NoRecs
           ELSE recs = <<(total - since) + RunStart - 1, total - 1>>
(* alarms only when accuracy decreased *)
OnlyDown == st # "None" => r * Len(win) > SumSeq(win) * (since - Len(win))
(* the closed form of a quiet step (STEPD.Quiet) is what Step(1) does on every reachable state that satisfies its precondition *)
QuietIsStep == [][ (QuietPre /\ Step(1)) => (since' = since + 1 /\ total' = total + 1 /\ r' = r + 1 /\ win' = win /\ st' = "None" /\ recs' = NoRecs) ]_vars
QuietSeen == ~(QuietPre /\ since >= 2 * cfg.w)       \* (violated = such states are reached: used once to see that the property is not vacuous)
Shift(rr) == <<IF rr[1] = -1 THEN -1 ELSE rr[1] + off, IF rr[2] = -1 THEN -1 ELSE rr[2] + off>>
TwinAgree == ~bfresh => /\ bst = st /\ bsince = since /\ btotal + off = total /\ Shift(brecs) = recs
                        /\ bwin = win /\ br = r
==========================================================================
