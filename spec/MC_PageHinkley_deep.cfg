SPECIFICATION Spec
CONSTANT Depth = 9
CONSTRAINT Bound
INVARIANT TypeOK
INVARIANT NoAlarmInBurnIn
INVARIANT PHRule
INVARIANT Extremes
INVARIANT TwinAgree
PROPERTY LCSpec
CHECK_DEADLOCK FALSE
