---------------------------- MODULE Trace_KdqTree ----------------------------
(* Trace validation for KDQTreePartitioner sessions: build / fill / reset / queries on integer data.
   After every call the whole public tree (walked node by node), the leaf counts, the KL distance
   and the plotly rows reported by the real object must equal what the specification computes. *)
EXTENDS KdqTree, TraceLib
VARIABLES cfg, tree
tvars == <<cfg, tree, tid, l>>
Init == /\ tid \in 1..NTr /\ l = 1 /\ cfg = Traces[tid].cfg /\ tree = "None"
Same == Chk("tree", tree', Ev.tree)
BuildEv == /\ More /\ Ev.op = "build"
           /\ tree' = Build(Ev.data, cfg.ub, MinCuts(Ev.data, cfg.lbnum, cfg.lbden), 0)
           /\ Same /\ Chk("leaf_counts", LeafCounts(tree', 1), Ev.counts) /\ cfg' = cfg /\ Adv
FillEv == /\ More /\ Ev.op = "fill"
          /\ tree' = Fill(tree, Ev.data, Ev.id, Ev.reset)
          /\ Same /\ Chk("leaf_counts", LeafCounts(tree', Ev.id), Ev.counts) /\ cfg' = cfg /\ Adv
ResetEv == /\ More /\ Ev.op = "reset"
           /\ tree' = SetAll(tree, Ev.id, Ev.value) /\ Same /\ cfg' = cfg /\ Adv
(* real-valued data (decimal grids, continuous values), for which the tree itself is not re-derived here: the relational clauses of the
   property - the build data filed under another id reproduce the build counts leaf by leaf, their divergence is 0, the counts add up *)
RefillEv == /\ More /\ Ev.op = "refill"
            /\ Chk("filling the build data under another id reproduces the build counts", Ev.cb, Ev.cf)
            /\ Chk("leaf counts add up to the number of points", SumInts(Ev.cb), Ev.n)
            /\ ChkB("kl_distance of equal counts is 0", Close(Ev.kl, "0.0"), Ev.kl)
            /\ UNCHANGED <<cfg, tree>> /\ Adv
KlOK(d) == ChkB("kl_distance", Close(d, Ev.kl), <<d, Ev.kl>>)
KlEv == /\ More /\ Ev.op = "kl"
        /\ KlOK(KLDist(tree, Ev.id1, Ev.id2))
        /\ ChkB("kl >= 0", ~DefLt(Ev.kl, "-1e-12"), Ev.kl)
        /\ UNCHANGED <<cfg, tree>> /\ Adv
KssOK(rows, refmax, testmax) ==
  \A k \in 1..Len(rows) :
    ChkB("kss", Close(KSS(rows[k].cell, rows[k].cell + rows[k].diff, refmax, testmax), Ev.kss[k]),
         <<k, KSS(rows[k].cell, rows[k].cell + rows[k].diff, refmax, testmax), Ev.kss[k]>>)
RowsOK(rows) == /\ Chk("plotly rows", rows, Ev.rows)
                /\ IF Ev.id2 = 0 THEN TRUE
                   ELSE KssOK(rows, SeqMaxInt([k \in 1..Len(rows) |-> rows[k].cell]),
                              SeqMaxInt([k \in 1..Len(rows) |-> rows[k].cell + rows[k].diff]))
PlotlyEv == /\ More /\ Ev.op = "plotly"
            /\ RowsOK(PlotlyD(tree, Ev.id1, Ev.id2, Ev.maxd))
            /\ UNCHANGED <<cfg, tree>> /\ Adv
Next == BuildEv \/ FillEv \/ ResetEv \/ KlEv \/ PlotlyEv \/ RefillEv
Spec == Init /\ [][Next]_tvars
=============================================================================
