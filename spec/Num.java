import tlc2.value.impl.*;
import util.UniqueString;

/* TLC module override for Num.tla: IEEE-754 doubles carried as decimal strings.
   Arithmetic only; every comparison that decides an outcome goes through NCmp (four-valued). */
public class Num {
  /* relative tolerance of the four-valued comparison; model-checking runs set -Dnum.tol=0 (exact
     IEEE comparisons: the model is then a deterministic function of its inputs), trace validation
     uses the default 1e-9 */
  static final double TOL = Double.parseDouble(System.getProperty("num.tol", "1e-9"));
  static double d(Value v) {
    if (v instanceof IntValue) return ((IntValue) v).val;
    String s = ((StringValue) v).val.toString();
    /* "None" / "NA" and anything else that is no number (an implementation under test may log them where a number is due) behave like NaN:
       every comparison with them is unordered, so the trace is rejected with a mismatch instead of crashing the checker */
    try { return Double.parseDouble(s); } catch (NumberFormatException e) { return Double.NaN; }
  }
  static Value s(double x) { return new StringValue(Double.toString(x)); }
  public static Value NAdd(Value a, Value b) { return s(d(a) + d(b)); }
  public static Value NSub(Value a, Value b) { return s(d(a) - d(b)); }
  public static Value NMul(Value a, Value b) { return s(d(a) * d(b)); }
  public static Value NDiv(Value a, Value b) { return s(d(a) / d(b)); }
  public static Value NSqrt(Value a) { return s(Math.sqrt(d(a))); }
  public static Value NLn(Value a) { return s(Math.log(d(a))); }
  public static Value NExp(Value a) { return s(Math.exp(d(a))); }
  public static Value NAbs(Value a) { return s(Math.abs(d(a))); }
  public static Value NNeg(Value a) { return s(-d(a)); }
  public static Value NNum(Value a) { return s(d(a)); }
  public static Value NMax(Value a, Value b) { double x = d(a), y = d(b); return s(x >= y ? x : y); }
  public static Value NMin(Value a, Value b) { double x = d(a), y = d(b); return s(x <= y ? x : y); }
  public static Value NFloor(Value a) { return IntValue.gen((int) Math.floor(d(a))); }
  /* sign: -1, 0, 1; 2 for NaN */
  public static Value NSign(Value a) { double x = d(a); return IntValue.gen(Double.isNaN(x) ? 2 : (x > 0 ? 1 : (x < 0 ? -1 : 0))); }
  /* arithmetic mean (left-to-right sum / n) and population standard deviation of a sequence */
  public static Value NMeanSeq(Value q) {
    TupleValue t = (TupleValue) q.toTuple(); double acc = 0.0;
    for (int i = 0; i < t.elems.length; i++) acc += d(t.elems[i]);
    return s(acc / t.elems.length);
  }
  public static Value NPopStdSeq(Value q) {
    TupleValue t = (TupleValue) q.toTuple(); int n = t.elems.length; double acc = 0.0;
    for (int i = 0; i < n; i++) acc += d(t.elems[i]);
    double m = acc / n, v = 0.0;
    for (int i = 0; i < n; i++) { double e = d(t.elems[i]) - m; v += e * e; }
    return s(Math.sqrt(v / n));
  }
  /* prefix sums (left to right) of a sequence; result has the same length */
  public static Value NPrefixSeq(Value q) {
    TupleValue t = (TupleValue) q.toTuple(); int n = t.elems.length; Value[] out = new Value[n]; double acc = 0.0;
    for (int i = 0; i < n; i++) { acc += d(t.elems[i]); out[i] = s(acc); }
    return new TupleValue(out);
  }
  /* population variance (two-pass) of a non-empty sequence */
  public static Value NPopVarSeq(Value q) {
    TupleValue t = (TupleValue) q.toTuple(); int n = t.elems.length; double acc = 0.0;
    for (int i = 0; i < n; i++) acc += d(t.elems[i]);
    double m = acc / n, v = 0.0;
    for (int i = 0; i < n; i++) { double e = d(t.elems[i]) - m; v += e * e; }
    return s(v / n);
  }
  /* numpy's round(x, n) - the rounding of the arithmetic the rates are computed in (numpy.float64.__round__): rint(x * 10^n) / 10^n, rint half-even.
     It differs from Python's round (the exact binary value rounded half-even) where x * 10^n is k + 0.5 only after the multiplication: 0.65 -> 0.6, not 0.7 */
  public static Value NRound(Value a, Value n) {
    double x = d(a);
    if (Double.isNaN(x) || Double.isInfinite(x)) return s(x);
    double p = Math.pow(10.0, ((IntValue) n).val);
    return s(Math.rint(x * p) / p);
  }
  public static Value NIsNaN(Value a) { return Double.isNaN(d(a)) ? BoolValue.ValTrue : BoolValue.ValFalse; }
  /* -1 lt, 0 bit-identical, 1 gt, 2 ambiguous (within 1e-9 relative), 3 unordered (NaN) */
  public static Value NCmp(Value a, Value b) {
    double x = d(a), y = d(b);
    if (Double.isNaN(x) || Double.isNaN(y)) return IntValue.gen(3);
    if (x == y) return IntValue.gen(0);
    if (Double.isInfinite(x) || Double.isInfinite(y)) return IntValue.gen(x < y ? -1 : 1);
    double tol = TOL * Math.max(1.0, Math.max(Math.abs(x), Math.abs(y)));
    if (Math.abs(x - y) <= tol) return IntValue.gen(2);
    return IntValue.gen(x < y ? -1 : 1);
  }
  /* |a-b| <= rel * max(1,|a|,|b|); NaN close to NaN; equal infinities close */
  public static Value NClose(Value a, Value b, Value rel) {
    double x = d(a), y = d(b), r = d(rel);
    if (Double.isNaN(x) || Double.isNaN(y)) return (Double.isNaN(x) && Double.isNaN(y)) ? BoolValue.ValTrue : BoolValue.ValFalse;
    if (x == y) return BoolValue.ValTrue;
    if (Double.isInfinite(x) || Double.isInfinite(y)) return BoolValue.ValFalse;
    return Math.abs(x - y) <= r * Math.max(1.0, Math.max(Math.abs(x), Math.abs(y))) ? BoolValue.ValTrue : BoolValue.ValFalse;
  }
  /* left-to-right sum of a sequence (tuple) of numbers */
  public static Value NSumSeq(Value q) {
    TupleValue t = (TupleValue) q.toTuple();
    double acc = 0.0;
    for (int i = 0; i < t.elems.length; i++) acc += d(t.elems[i]);
    return s(acc);
  }
}
