SPECIFICATION Spec
CONSTANT Depth = 11
CONSTRAINT Bound
INVARIANT TypeOK
INVARIANT NoEarly
INVARIANT SilentUntil2W
INVARIANT InARow
INVARIANT BatchRule
INVARIANT NextRef
INVARIANT RefCounts
PROPERTY LCSpec
CHECK_DEADLOCK FALSE
