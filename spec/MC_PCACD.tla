------------------------------- MODULE MC_PCACD -------------------------------
(* All score sequences from a 4-value set up to Depth, window 2..3, step 1..2, PH threshold 0..1. *)
EXTENDS PCACD, TLC
CONSTANTS Depth
VARIABLES lastDrift
vars == <<pcavars, lastDrift>>
Configs == { [W |-> w, step |-> s, delta |-> "0.1", phthr |-> th] : w \in {2, 3}, s \in {1, 2}, th \in {0, 1} }
Scores == {"0.0", "0.25", "0.5", "1.0"}
Init == (\E c \in Configs : InitWith(c)) /\ lastDrift = 0
K(s) == [npcs |-> 1, score |-> s, ref |-> refR,
         build |-> IF phase = "FillTest" THEN Grow(testR, total + 1) ELSE buildR,
         test |-> <<testR[1] + 1, testR[2] + 1>>]
Sample == /\ \E s \in Scores : Step(K(s))
          /\ lastDrift' = IF st' = "drift" THEN total' ELSE lastDrift
Reset == /\ phase # "Drifted" /\ total > 0 /\ UserReset /\ UNCHANGED lastDrift
Next == Sample \/ Reset
Spec == Init /\ [][Next]_vars
Bound == TLCGet("level") <= Depth
LC == INSTANCE Lifecycle WITH ltab <- [restart |-> 0, incs |-> {1}, hasrecs |-> FALSE, epochbound |-> TRUE, refrestart |-> FALSE],
        state <- st, recs <- <<-1, -1>>, warm <- (phase \in {"Monitor", "Drifted"})
LCSpec == LC!Spec
TypeOK == LC!TypeOK /\ st # "warning"
(* nothing before both windows are full: 2W samples at the start, W further samples after a drift *)
Silent == st = "drift" => /\ total > 2 * pcfg.W
                          /\ Size(refR) = pcfg.W /\ Size(testR) = pcfg.W /\ testR[2] = total
SilentAfterDrift == [][ st' = "drift" /\ lastDrift > 0 => total' >= lastDrift + 1 + pcfg.W + 1 ]_vars
(* scores only on schedule, only while monitoring; drift only from a scored sample on which PH alarms *)
OnSchedule == [][ nscores' # nscores => phase = "Monitor" /\ Scheduled(total') ]_vars
DriftIffPH == [][ (st' = "drift") <=> (nscores' # nscores /\ phst' = "drift") ]_vars
(* after a drift the former test window becomes the reference and the embedded test starts afresh *)
Promote == [][ phase = "Drifted" /\ total' # total => refR' = testR /\ since' = 0 /\ phnrows' = 0 /\ phsum' = "0.0" ]_vars
MonitorWindows == phase = "Monitor" => Size(refR) = pcfg.W /\ Size(testR) = pcfg.W /\ testR[2] = total /\ refR[2] < testR[1] + total
=============================================================================
