SPECIFICATION Spec
CONSTANT Depth = 5
CONSTANT N = 3
CONSTRAINT Bound
INVARIANT CountsUpdates
INVARIANT OwnSince
INVARIANT FanOut
INVARIANT ElectOK
INVARIANT CounterBound
CHECK_DEADLOCK FALSE
