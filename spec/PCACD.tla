-------------------------------- MODULE PCACD --------------------------------
(* C11 - PCA-CD: control and decision; the per-component divergence is a numeric kernel computed
   outside TLC (sklearn / numpy on the raw data, per component on that component's own support) and
   enters each step as k = [npcs, score, ref, build, test]: the number of retained components, the
   maximal component divergence, and the index ranges <<lo, hi>> of the stream the kernel was
   evaluated on.  The specification decides WHEN the windows are (re)built and scored, WHICH
   ranges are compared, and what follows from the score (an embedded Page-Hinkley test with
   burn_in 0 and threshold round(0.01 * window)).  Samples are numbered by arrival (1-based).

   phase "FillRef"  collecting the reference window            "FillTest" collecting the test window
         "Monitor"  sliding the test window, scoring on schedule
         "Drifted"  drift reported; the next sample is discarded while the former test window is
                    promoted to reference *)
EXTENDS Integers, Sequences, Num
VARIABLES pcfg,    \* [W, step, delta, phthr]
          total, since, st, phase, refR, buildR, testR, npcs, score, nscores,
          phcfg, phtotal, phsince, phst, phmean, phsum, phmn, phmx, phdiff, phtheta, phchk, phnrows
PH == INSTANCE PageHinkley WITH cfg <- phcfg, total <- phtotal, since <- phsince, st <- phst, mean <- phmean,
        sum <- phsum, mn <- phmn, mx <- phmx, diff <- phdiff, theta <- phtheta, chk <- phchk, nrows <- phnrows
phv == <<phcfg, phtotal, phsince, phst, phmean, phsum, phmn, phmx, phdiff, phtheta, phchk, phnrows>>
pcavars == <<pcfg, total, since, st, phase, refR, buildR, testR, npcs, score, nscores, phv>>
None2 == <<0, 0>>
InitWith(c) == /\ pcfg = c /\ total = 0 /\ since = 0 /\ st = "None" /\ phase = "FillRef"
               /\ refR = None2 /\ buildR = None2 /\ testR = None2 /\ npcs = 0 /\ score = "None" /\ nscores = 0
               /\ PH!InitWith([burn |-> 0, delta |-> c.delta, thr |-> c.phthr, dir |-> "positive"])
Size(r) == IF r = None2 THEN 0 ELSE r[2] - r[1] + 1
Grow(r, t) == IF r = None2 THEN <<t, t>> ELSE <<r[1], t>>
Scheduled(t) == (t - 1) % pcfg.step = 0 /\ t # 1

Step(k) ==
  LET t == total + 1 IN
  /\ total' = t /\ pcfg' = pcfg
  /\ CASE phase = "Drifted" ->
            \* the sample is discarded; former test window becomes the reference; counters and PH restart
            /\ phase' = "FillTest" /\ refR' = testR /\ testR' = None2 /\ buildR' = None2
            /\ since' = 0 /\ st' = "None" /\ npcs' = npcs /\ score' = score /\ nscores' = nscores
            /\ PH!Reset
       [] phase = "FillRef" ->
            /\ refR' = Grow(refR, t) /\ since' = since + 1 /\ st' = "None"
            /\ phase' = (IF Size(refR') = pcfg.W THEN "FillTest" ELSE "FillRef")
            /\ UNCHANGED <<buildR, testR, npcs, score, nscores, phv>>
       [] phase = "FillTest" ->
            /\ testR' = Grow(testR, t) /\ since' = since + 1 /\ st' = "None" /\ refR' = refR
            /\ IF Size(testR') = pcfg.W
                 THEN /\ phase' = "Monitor" /\ buildR' = testR'
                      /\ npcs' = k.npcs /\ k.ref = refR /\ k.build = testR'       \* principal components of the reference
                 ELSE phase' = "FillTest" /\ buildR' = buildR /\ npcs' = npcs
            /\ UNCHANGED <<score, nscores, phv>>
       [] phase = "Monitor" ->
            /\ testR' = <<testR[1] + 1, testR[2] + 1>> /\ since' = since + 1
            /\ UNCHANGED <<refR, buildR, npcs>>
            /\ IF Scheduled(t)
                 THEN /\ k.ref = refR /\ k.build = buildR /\ k.test = testR'      \* what is compared with what
                      /\ score' = k.score /\ nscores' = nscores + 1
                      /\ PH!Step(k.score)
                      /\ st' = (IF phst' = "drift" THEN "drift" ELSE "None")
                      /\ phase' = (IF phst' = "drift" THEN "Drifted" ELSE "Monitor")
                 ELSE /\ UNCHANGED <<score, nscores, phv>> /\ st' = "None" /\ phase' = "Monitor"
(* user reset(): only the counters and the state restart (the windows are kept) *)
UserReset == since' = 0 /\ st' = "None"
             /\ UNCHANGED <<pcfg, total, phase, refR, buildR, testR, npcs, score, nscores, phv>>
=============================================================================
