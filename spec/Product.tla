-------------------------------- MODULE Product --------------------------------
(* Relational (2-safety) properties by self-composition: two executions A and B of real detectors are
   recorded side by side and the relation between their projected outputs is checked step by step.
   A projection is a record [state, since, total, recs, nums, tag]: nums are the numeric public outputs
   (decimal strings), tag a digest of everything else that must agree.

   rel = "Equal"                 B must report exactly what A reports (no-harm, aliasing, relabelling, unused
                                 arguments, container independence, row permutation with position-free thresholds)
         "EqualShifted"          B is a NEW detector started after a drift of A (or at a set_reference) with the
                                 documented carry-over: equal outputs, indices shifted by the items A saw before
         "FirstDriftNotLater"    A runs with the stricter detection threshold: A's first drift is not earlier than B's
         "WarningsSuperset"      A runs with the stricter warning threshold: same drifts, and B warns whenever A does
         "EqualWhileAgree"       numeric outputs equal as long as the two decision sequences have agreed so far

   The protocol variables make the HARNESS's obligations checkable (a twin is restarted exactly after each
   reported drift; the offset is fixed at that moment). *)
EXTENDS Integers, Sequences, Num
VARIABLES rel, off, prevA, prevTotal, bDrifted, agree, steps
prodvars == <<rel, off, prevA, prevTotal, bDrifted, agree, steps>>
InitWith(r) == rel = r /\ off = 0 /\ prevA = "None" /\ prevTotal = 0 /\ bDrifted = FALSE /\ agree = TRUE /\ steps = 0
Same(x, y) == x = y \/ (x # "None" /\ y # "None" /\ x # "NA" /\ y # "NA" /\ Close(x, y))
NumsEq(p, q) == Len(p) = Len(q) /\ \A i \in 1..Len(p) : Same(p[i], q[i])
ShiftIdx(i, o) == IF i < 0 THEN i ELSE i + o
RecsShift(r, o) == <<ShiftIdx(r[1], o), ShiftIdx(r[2], o)>>
EqualProj(a, b, o) == /\ a.state = b.state /\ a.since = b.since /\ a.total = b.total + o
                      /\ a.recs = RecsShift(b.recs, o) /\ NumsEq(a.nums, b.nums) /\ a.tag = b.tag
(* one recorded step; fresh: B was (re)started immediately before it; cmp: outputs are to be compared *)
StepOK(a, b, fresh, cmp, boff) ==
  CASE rel = "Equal" -> cmp => EqualProj(a, b, 0)
    [] rel = "EqualShifted" ->
         /\ (prevA = "drift" => fresh)                      \* protocol: a new twin after every reported drift ...
         /\ (fresh => boff = prevTotal)                     \* ... shifted by exactly the items A had seen until then
         /\ cmp => EqualProj(a, b, IF fresh THEN boff ELSE off)
    [] rel = "FirstDriftNotLater" -> /\ (a.state = "drift" /\ ~bDrifted) => b.state = "drift"
                                     \* both runs have seen the same data under the same seeds and neither has alarmed yet: the critical value the
                                     \* stricter run compares the (identical) statistic with is not below the looser run's - otherwise a batch whose
                                     \* statistic falls between the two would make the stricter run alarm first (thr: "None" where there is none)
                                     /\ (~bDrifted /\ a.thr # "None" /\ b.thr # "None") => ~DefLt(a.thr, b.thr)
    [] rel = "WarningsSuperset" -> /\ (a.state = "drift") = (b.state = "drift")
                                   /\ a.state = "warning" => b.state \in {"warning", "drift"}
    [] rel = "EqualWhileAgree" -> (agree /\ cmp) => NumsEq(a.nums, b.nums)
Advance(a, b, fresh, boff) ==
  /\ off' = (IF fresh THEN boff ELSE off) /\ prevA' = a.state /\ prevTotal' = a.total
  /\ bDrifted' = (bDrifted \/ b.state = "drift" \/ a.state = "drift")     \* the relation speaks about the FIRST drift only
  /\ agree' = (agree /\ a.state = b.state)
  /\ steps' = steps + 1 /\ rel' = rel
=============================================================================
