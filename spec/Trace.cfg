SPECIFICATION Spec
CONSTRAINT Track
POSTCONDITION Post
CHECK_DEADLOCK FALSE
