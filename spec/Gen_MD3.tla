------------------------------- MODULE Gen_MD3 -------------------------------
(* Conformance B for MD3: TLC enumerates EVERY behaviour of the MD3 specification up to the depth
   bound (all interleavings of accepted and refused calls from both references, all configurations)
   and prints it with the projection expected after every call; the harness steps the real MD3
   object along each behaviour and compares after every step. *)
EXTENDS MC_MD3, Json
VARIABLES hist
gvars == <<vars, hist>>
Proj == [state |-> st, waiting |-> (mode = "Waiting"), noracle |-> Len(oracle), total |-> total, since |-> since,
         cur |-> cur, n |-> refn, md |-> md, mdstd |-> mdstd, acc |-> acc, accstd |-> accstd]
GInit == Init /\ hist = <<>>
Rec(op, a, b, c) == [op |-> op, a |-> a, b |-> b, c |-> c, sens |-> mcfg.sens, L |-> mcfg.L]
GRef == /\ lastCall = "init" /\ \E r \in Refs : SetReference(r) /\ hist' = Append(hist, [call |-> Rec("set_reference", 0, 0, 0), rows |-> r, exp |-> Proj'])
        /\ lastCall' = "set_reference" /\ UNCHANGED labelsGiven
GReRef == /\ lastCall # "init" /\ \E r \in Refs : SetReference(r) /\ hist' = Append(hist, [call |-> Rec("set_reference", 0, 0, 0), rows |-> r, exp |-> Proj'])
          /\ lastCall' = "set_reference" /\ UNCHANGED labelsGiven
GUpd == /\ lastCall # "init" /\ \E m \in {0, 1} : Update(m) /\ hist' = Append(hist, [call |-> Rec("update", m, 0, 0), rows |-> <<>>, exp |-> Proj'])
        /\ lastCall' = "update" /\ labelsGiven' = 0
GUpdRef == /\ lastCall # "init" /\ \E rows \in {1, 2} : UpdateRefused(rows) /\ hist' = Append(hist, [call |-> Rec("update_refused", rows, 0, 0), rows |-> <<>>, exp |-> Proj'])
           /\ lastCall' = "update refused" /\ UNCHANGED labelsGiven
GLab == /\ lastCall # "init" /\ \E m \in {0, 1}, c \in {0, 1} : GiveLabel(m, c, Append(oracle, <<m, c>>))
                                   /\ hist' = Append(hist, [call |-> Rec("label", m, c, 0), rows |-> <<>>, exp |-> Proj'])
        /\ lastCall' = "label" /\ labelsGiven' = (IF mode' = "Idle" THEN 0 ELSE labelsGiven + 1)
GLabRef == /\ lastCall # "init" /\ \E rows \in {1, 2}, ok \in BOOLEAN : LabelRefused(rows, ok)
                                      /\ hist' = Append(hist, [call |-> Rec("label_refused", rows, IF ok THEN 1 ELSE 0, 0), rows |-> <<>>, exp |-> Proj'])
           /\ lastCall' = "label refused" /\ UNCHANGED labelsGiven
GNext == GRef \/ GReRef \/ GUpd \/ GUpdRef \/ GLab \/ GLabRef
GSpec == GInit /\ [][GNext]_gvars
Emit == TLCGet("level") < Depth \/ PrintT("GEN|" \o ToJson(hist))
=============================================================================
