------------------------------ MODULE MC_Cusum ------------------------------
(* All observation sequences over a 4-value alphabet up to Depth, all Configs.  The twin (C02) is a
   newly constructed CUSUM given, as constructor arguments, the documented carry-over: mean and
   population deviation of the last burn_in observations before the drift. *)
EXTENDS Cusum, TLC
CONSTANTS Depth
VARIABLES bcfg, btotal, bsince, bst, btarget, bsd, bsh, bsl, blastB, bfresh, off, raised
Alphabet == {"0.0", "1.0", "4.5", "-3.0"}
Configs == { [burn |-> b, delta |-> "0.005", thr |-> t, dir |-> dr, target0 |-> tg[1], sd0 |-> tg[2]] :
               b \in {2, 3}, t \in {"1.0", "3.0"}, dr \in {"both", "positive", "negative"},
               tg \in {<<"None", "None">>, <<"0.5", "1.5">>} }
B == INSTANCE Cusum WITH cfg <- bcfg, total <- btotal, since <- bsince, st <- bst, target <- btarget,
        sd <- bsd, sh <- bsh, sl <- bsl, lastB <- blastB
bvars == <<bcfg, btotal, bsince, bst, btarget, bsd, bsh, bsl, blastB>>
vars == <<cusumvars, bvars, bfresh, off, raised>>
Init == /\ \E c \in Configs : InitWith(c) /\ B!InitWith(c)
        /\ bfresh = FALSE /\ off = 0 /\ raised = FALSE
Update == \E x \in Alphabet :
            /\ (st = "drift" => bfresh)
            /\ \/ Step(x) /\ B!Step(x) /\ raised' = FALSE
               \/ RejectZeroSd(x) /\ B!RejectZeroSd(x) /\ raised' = TRUE
            /\ bfresh' = FALSE /\ off' = off
TwinRestart == /\ st = "drift" /\ ~bfresh
               /\ bcfg' = [cfg EXCEPT !.target0 = NMeanSeq(lastB), !.sd0 = NPopStdSeq(lastB)]
               /\ btotal' = 0 /\ bsince' = 0 /\ bst' = "None"
               /\ btarget' = NMeanSeq(lastB) /\ bsd' = NPopStdSeq(lastB)
               /\ bsh' = "0.0" /\ bsl' = "0.0" /\ blastB' = <<>>
               /\ bfresh' = TRUE /\ off' = total /\ UNCHANGED <<cusumvars, raised>>
(* the caller's reset() once the statistics are known (and no drift is pending): both runs restart their sums and keep target / deviation *)
Rst == /\ target # "None" /\ st # "drift"
       /\ Reset /\ B!Reset /\ UNCHANGED <<bfresh, off>> /\ raised' = FALSE
Next == Update \/ TwinRestart \/ Rst
Spec == Init /\ [][Next]_vars
Bound == TLCGet("level") <= Depth

LC == INSTANCE Lifecycle WITH ltab <- [restart |-> 1, incs |-> {1}, hasrecs |-> FALSE, epochbound |-> TRUE, refrestart |-> FALSE],
                              state <- st, warm <- (since > cfg.burn), recs <- <<-1, -1>>
LCSpec == LC!Spec
TypeOK == LC!TypeOK /\ st # "warning"
NoAlarmInBurnIn == since <= cfg.burn => st # "drift"
DirectionSound == st = "drift" =>
                    /\ cfg.dir = "positive" => ~DefLt(sh, cfg.thr)
                    /\ cfg.dir = "negative" => ~DefLt(sl, cfg.thr)
                    /\ cfg.dir = "both" => (~DefLt(sh, cfg.thr) \/ ~DefLt(sl, cfg.thr))
NonNeg == NSign(sh) \in {0, 1} /\ NSign(sl) \in {0, 1}
TwinAgree == ~bfresh => /\ bst = st /\ bsince = since /\ btotal + off = total
                        /\ Close(bsh, sh) /\ Close(bsl, sl) /\ btarget = target /\ bsd = sd
==========================================================================
