SPECIFICATION Spec
CONSTANT G = 5
CONSTANT NP = 4
CONSTANT NF = 2
CONSTANT UBs = {1, 2, 3}
CONSTANT Dim = 1
INVARIANT Partition
INVARIANT NoSmallSplit
INVARIANT Conservation
INVARIANT LeafTotals
INVARIANT CountsAreRouting
INVARIANT Refill
INVARIANT AxisCycles
INVARIANT DistnOK
INVARIANT KLNonNeg
INVARIANT FlatOK
PROPERTY FreshLeaves
CHECK_DEADLOCK FALSE
