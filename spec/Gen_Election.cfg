SPECIFICATION GenSpec
CONSTANT N = 3
CONSTANT MaxWait = 2
CHECK_DEADLOCK FALSE
