------------------------------ MODULE MC_DDM ------------------------------
(* Model-checking instance of DDM: all binary outcome sequences up to the depth bound, all
   configurations in Configs.  Twin b* = a second DDM restarted from scratch after every drift of
   the first one (self-composition for C02). *)
EXTENDS DDM, TLC
CONSTANTS Depth
VARIABLES hs,        \* states reported in the current epoch (history variable for RecsFirstWarn)
          bcfg, btotal, bsince, bst, brecs, brate, bstd, brmin, bsmin, bfresh, off
Configs == { [nthr |-> n, ws |-> p[1], ds |-> p[2]] :
               n \in {0, 1, 2, 3, 5}, p \in {<<"2.0", "3.0">>, <<"0.5", "1.0">>, <<"1.0", "1.0">>, <<"3.0", "2.0">>} }
B == INSTANCE DDM WITH cfg <- bcfg, total <- btotal, since <- bsince, st <- bst, recs <- brecs,
                       rate <- brate, std <- bstd, rmin <- brmin, smin <- bsmin
bvars == <<bcfg, btotal, bsince, bst, brecs, brate, bstd, brmin, bsmin>>
vars == <<ddmvars, hs, bvars, bfresh, off>>

Init == /\ \E c \in Configs : InitWith(c) /\ B!InitWith(c)
        /\ hs = <<>> /\ bfresh = FALSE /\ off = 0
Update == \E c \in {0, 1} :
            /\ (st = "drift" => bfresh)
            /\ Step(c) /\ B!Step(c)
            /\ hs' = (IF st = "drift" THEN <<>> ELSE hs) \o <<st'>>
            /\ bfresh' = FALSE /\ off' = off
TwinRestart == /\ st = "drift" /\ ~bfresh
               /\ bcfg' = cfg /\ btotal' = 0 /\ bsince' = 0 /\ bst' = "None" /\ brecs' = NoRecs
               /\ brate' = "0.0" /\ bstd' = "0.0" /\ brmin' = INF /\ bsmin' = INF
               /\ bfresh' = TRUE /\ off' = total
               /\ UNCHANGED <<ddmvars, hs>>
UReset == /\ st # "drift" /\ total > 0 /\ Reset /\ B!Reset /\ hs' = <<>> /\ UNCHANGED <<bfresh, off>>
Next == Update \/ TwinRestart \/ UReset
Spec == Init /\ [][Next]_vars
Bound == TLCGet("level") <= Depth

(* ---- C01: DDM refines the lifecycle contract ---- *)
LC == INSTANCE Lifecycle WITH ltab <- [restart |-> 1, incs |-> {1}, hasrecs |-> TRUE, epochbound |-> TRUE, refrestart |-> FALSE],
                              state <- st, warm <- (since >= cfg.nthr)
LCSpec == LC!Spec
TypeOK == LC!TypeOK
NoEarly == LC!NoEarly
RecsRange == LC!RecsRange

(* ---- C05: recs semantics from the property text ---- *)
FirstAlarm == IF \E i \in 1..Len(hs) : hs[i] # "None"
                THEN CHOOSE i \in 1..Len(hs) : hs[i] # "None" /\ \A j \in 1..(i-1) : hs[j] = "None"
                ELSE 0
RecsFirstWarn == /\ (recs[1] # -1) <=> (FirstAlarm # 0)
                 /\ recs[1] # -1 => recs[1] = (total - since) + FirstAlarm - 1
                 /\ (recs[2] # -1) <=> (st = "drift")
                 /\ Len(hs) = since
(* a drift threshold at least as large as the warning threshold: drift implies the warning test *)
MinTracked == since >= cfg.nthr /\ cfg.nthr > 0 => NCmp(NAdd(rate, std), NAdd(rmin, smin)) \in {0, 1, 2}

(* ---- C02: from the update after a drift on, equal to a fresh detector (indices shifted) ---- *)
Shift(r) == <<IF r[1] = -1 THEN -1 ELSE r[1] + off, IF r[2] = -1 THEN -1 ELSE r[2] + off>>
TwinAgree == ~bfresh => /\ bst = st /\ bsince = since /\ btotal + off = total
                        /\ Shift(brecs) = recs /\ brate = rate /\ bstd = std
                        /\ brmin = rmin /\ bsmin = smin
==========================================================================
