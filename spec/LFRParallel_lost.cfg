SPECIFICATION Spec
CONSTANT Keys = {k1, k2}
INVARIANT NoLostEntry
CHECK_DEADLOCK FALSE
