----------------------------- MODULE MC_KdqTree -----------------------------
(* All multisets of up to NP points on a G x G (or G-point 1-D) integer grid, every count_ubound in
   UBs and two cell-size bounds; for each built tree all fills of up to NF points under the two fill
   ids, with and without reset.  State = the data built, the tree, what has been filled. *)
EXTENDS KdqTree, TLC, SequencesExt
CONSTANTS G, NP, NF, UBs, Dim
VARIABLES data, ub, lb, tree, filled, phase
vars == <<data, ub, lb, tree, filled, phase>>
Coord == 0..(G - 1)
Pts == IF Dim = 1 THEN { <<x>> : x \in Coord } ELSE { <<x, y>> : x \in Coord, y \in Coord }
PtSeq == SetToSeq(Pts)
Idx(p) == CHOOSE i \in 1..Len(PtSeq) : PtSeq[i] = p
Init == /\ data = <<>> /\ ub \in UBs /\ lb \in {0, 1} /\ tree = "None" /\ filled = [i \in 1..NIds |-> <<>>]
        /\ phase = "collect"
(* grow the multiset in canonical (non-decreasing) order *)
AddPoint == /\ phase = "collect" /\ Len(data) < NP
            /\ \E p \in Pts : (IF data = <<>> THEN TRUE ELSE Idx(p) >= Idx(data[Len(data)])) /\ data' = Append(data, p)
            /\ UNCHANGED <<ub, lb, tree, filled, phase>>
BuildIt == /\ phase = "collect" /\ Len(data) >= 1
           /\ tree' = Build(data, ub, MinCuts(data, lb, 4), 0)        \* cutpoint_proportion_lbound 0 or 1/4
           /\ filled' = [filled EXCEPT ![1] = data] /\ phase' = "built"
           /\ UNCHANGED <<data, ub, lb>>
FillIt == /\ phase = "built" /\ Len(filled[2]) + Len(filled[3]) < NF
          /\ \E id \in 2..NIds, p \in Pts, reset \in BOOLEAN :
               /\ tree' = Fill(tree, <<p>>, id, reset)
               /\ filled' = [filled EXCEPT ![id] = IF reset THEN <<p>> ELSE Append(filled[id], p)]
          /\ UNCHANGED <<data, ub, lb, phase>>
(* build() on a partitioner that already holds a tree: the object forgets the old tree, its leaf list and every count - what follows is what
   follows on a new object with the same two parameters (so the states reached are the ones already explored: the action adds edges only).
   KDQTreePartitioner.build used to append the new leaves to the old list (known finding F24, fixed). *)
Rebuild == /\ phase = "built"
           /\ data' = <<>> /\ tree' = "None" /\ filled' = [i \in 1..NIds |-> <<>>] /\ phase' = "collect"
           /\ UNCHANGED <<ub, lb>>
Next == AddPoint \/ BuildIt \/ FillIt \/ Rebuild
Spec == Init /\ [][Next]_vars

Built == phase = "built"
(* the leaf list of a (re)built partitioner is the leaf list of its CURRENT tree: one entry per leaf, none left over *)
FreshLeaves == [][phase = "collect" /\ phase' = "built" => Len(LeafCounts(tree', 1)) = NLeaves(tree') /\ SumInts(LeafCounts(tree', 1)) = Len(data)]_vars
(* every grid point lies in exactly one leaf cell, and the cells are those the splits define *)
Partition == Built => \A p \in Pts : LeafIndex(tree, p, 1) \in 1..NLeaves(tree)
NoSmallSplit == Built => StopRule(tree, ub)
Conservation == Built => ChildrenSum(tree)
LeafTotals == Built => \A id \in 1..NIds :
                (filled[id] = <<>> /\ id # 1) \/ SumInts(LeafCounts(tree, id)) = Len(filled[id])
(* counts are exactly the points routed to each leaf *)
CountsAreRouting == Built => \A id \in 1..NIds : filled[id] # <<>> =>
                      \A k \in 1..NLeaves(tree) :
                        LeafCounts(tree, id)[k] = Cardinality({i \in 1..Len(filled[id]) : LeafIndex(tree, filled[id][i], 1) = k})
(* filling the build data under another id reproduces the build counts *)
Refill == Built => LeafCounts(Fill(tree, data, 2, TRUE), 2) = LeafCounts(tree, 1)
AxisCycles == Built => \A n \in Nodes(tree) : ~n.leaf => n.axis \in 0..(Dim - 1)
(* distributions sum to one; KL is non-negative and zero for equal counts *)
DistnOK == Built => LET c == LeafCounts(tree, 1) IN Close(NSumSeq(Distn(c)), 1) /\ NSign(KL(c, c)) = 0
KLNonNeg == Built /\ filled[2] # <<>> => ~DefLt(KLDist(tree, 1, 2), "-1e-12")
(* the flattened view lists every node exactly once, with consistent parents and depths *)
FlatOK == Built => LET rows == Plotly(tree, 1, 2) IN
            /\ Len(rows) = 2 * NLeaves(tree) - 1
            /\ rows[1].parent = 0 /\ rows[1].depth = 0
            /\ \A k \in 2..Len(rows) : rows[k].parent \in 1..(k - 1) /\ rows[k].depth = rows[rows[k].parent].depth + 1
            /\ \A k \in 1..Len(rows) : LET kids == {j \in 1..Len(rows) : rows[j].parent = k} IN
                 kids = {} \/ (Cardinality(kids) = 2 /\ rows[k].cell = SumInts([j \in 1..2 |-> rows[SetToSeq(kids)[j]].cell]))
=============================================================================
