----------------------------- MODULE LFRParallel -----------------------------
(* Growth beyond the listed properties: the ONLY concurrent code path of menelaus,
   LinearFourRates(parallelize=True): update() runs _calculate_rate_bounds(rate) for the tracked rates on two
   joblib threads that share the detector's dictionaries (require="sharedmem", no locks).
   The per-rate entries (_p_table, _r_stat, _denominators, flags) are written under distinct keys and do not
   conflict; the shared bounds cache does:  _update_bounds_dict  reads self._bounds, simulates on a miss,
   inserts, and then RE-BINDS self._bounds to a sorted copy.  The PlusCal algorithm below models two threads
   looking up keys in that cache at the granularity of the Python statements.  TLC shows (i) that two threads
   that miss the same key both simulate, so one key is bound to two different bounds records within one update
   (SameKeySameBounds fails), and (ii) that an insertion into the old dictionary object is lost when the other
   thread re-binds the sorted copy (NoLostEntry fails).  Both contradict the sequential cache contract
   (CacheStable in LFR.tla); with parallelize=False (the default, and the only mode the checks drive) neither can
   happen.  This module is documentation-by-model-checking of a hazard, not a check of a listed property. *)
EXTENDS Integers, Sequences, FiniteSets, TLC
CONSTANTS Keys          \* cache keys looked up by the two threads (may coincide)

(* --algorithm lfrpar
variables cache = [obj |-> 1, entries |-> {}],   \* the dictionary object self._bounds refers to, and its entries <<key, sim id>>
          objs = [o \in {1} |-> {}],             \* contents of every dictionary object ever created (old ones may still be written)
          nextobj = 2, nextsim = 1,
          used = [t \in {1, 2} |-> <<>>];        \* bounds each thread ends up using: <<key, sim id>>
define
  Has(o, k) == \E e \in objs[o] : e[1] = k
  Get(o, k) == CHOOSE e \in objs[o] : e[1] = k
end define;
process thread \in {1, 2}
variables key \in Keys, ref = 0, sim = 0, snap = {};
begin
  Read:    ref := cache.obj;                                  \* r_est_rate in self._bounds  (reads the current object)
  Check:   if Has(ref, key) then
             used[self] := Get(ref, key);
             goto Done;
           end if;
  Simulate: sim := nextsim; nextsim := nextsim + 1;           \* self._sim_bounds(...)  (Monte-Carlo: a fresh record)
  Insert:  objs[cache.obj] := objs[cache.obj] \cup {<<key, sim>>};   \* self._bounds[r_est_rate] = denom_dict  (the object bound NOW)
           used[self] := <<key, sim>>;
  Copy:    snap := objs[cache.obj];                            \* dict(sorted(self._bounds.items()))  - evaluated first ...
  Rebind:  objs := objs @@ (nextobj :> snap);                  \* ... then  self._bounds = <that copy>
           cache := [obj |-> nextobj, entries |-> snap];
           nextobj := nextobj + 1;
end process;
end algorithm; *)
\* BEGIN TRANSLATION
VARIABLES pc, cache, objs, nextobj, nextsim, used

(* define statement *)
Has(o, k) == \E e \in objs[o] : e[1] = k
Get(o, k) == CHOOSE e \in objs[o] : e[1] = k

VARIABLES key, ref, sim, snap

vars == << pc, cache, objs, nextobj, nextsim, used, key, ref, sim, snap >>

ProcSet == ({1, 2})

Init == (* Global variables *)
        /\ cache = [obj |-> 1, entries |-> {}]
        /\ objs = [o \in {1} |-> {}]
        /\ nextobj = 2
        /\ nextsim = 1
        /\ used = [t \in {1, 2} |-> <<>>]
        (* Process thread *)
        /\ key \in [{1, 2} -> Keys]
        /\ ref = [self \in {1, 2} |-> 0]
        /\ sim = [self \in {1, 2} |-> 0]
        /\ snap = [self \in {1, 2} |-> {}]
        /\ pc = [self \in ProcSet |-> "Read"]

Read(self) == /\ pc[self] = "Read"
              /\ ref' = [ref EXCEPT ![self] = cache.obj]
              /\ pc' = [pc EXCEPT ![self] = "Check"]
              /\ UNCHANGED << cache, objs, nextobj, nextsim, used, key, sim, 
                              snap >>

Check(self) == /\ pc[self] = "Check"
               /\ IF Has(ref[self], key[self])
                     THEN /\ used' = [used EXCEPT ![self] = Get(ref[self], key[self])]
                          /\ pc' = [pc EXCEPT ![self] = "Done"]
                     ELSE /\ pc' = [pc EXCEPT ![self] = "Simulate"]
                          /\ used' = used
               /\ UNCHANGED << cache, objs, nextobj, nextsim, key, ref, sim, 
                               snap >>

Simulate(self) == /\ pc[self] = "Simulate"
                  /\ sim' = [sim EXCEPT ![self] = nextsim]
                  /\ nextsim' = nextsim + 1
                  /\ pc' = [pc EXCEPT ![self] = "Insert"]
                  /\ UNCHANGED << cache, objs, nextobj, used, key, ref, snap >>

Insert(self) == /\ pc[self] = "Insert"
                /\ objs' = [objs EXCEPT ![cache.obj] = objs[cache.obj] \cup {<<key[self], sim[self]>>}]
                /\ used' = [used EXCEPT ![self] = <<key[self], sim[self]>>]
                /\ pc' = [pc EXCEPT ![self] = "Copy"]
                /\ UNCHANGED << cache, nextobj, nextsim, key, ref, sim, snap >>

Copy(self) == /\ pc[self] = "Copy"
              /\ snap' = [snap EXCEPT ![self] = objs[cache.obj]]
              /\ pc' = [pc EXCEPT ![self] = "Rebind"]
              /\ UNCHANGED << cache, objs, nextobj, nextsim, used, key, ref, 
                              sim >>

Rebind(self) == /\ pc[self] = "Rebind"
                /\ objs' = objs @@ (nextobj :> snap[self])
                /\ cache' = [obj |-> nextobj, entries |-> snap[self]]
                /\ nextobj' = nextobj + 1
                /\ pc' = [pc EXCEPT ![self] = "Done"]
                /\ UNCHANGED << nextsim, used, key, ref, sim, snap >>

thread(self) == Read(self) \/ Check(self) \/ Simulate(self) \/ Insert(self)
                   \/ Copy(self) \/ Rebind(self)

(* Allow infinite stuttering to prevent deadlock on termination. *)
Terminating == /\ \A self \in ProcSet: pc[self] = "Done"
               /\ UNCHANGED vars

Next == (\E self \in {1, 2}: thread(self))
           \/ Terminating

Spec == Init /\ [][Next]_vars

Termination == <>(\A self \in ProcSet: pc[self] = "Done")

\* END TRANSLATION

AllDone == \A t \in {1, 2} : pc[t] = "Done"
(* sequential contract 1: one key, one bounds record *)
SameKeySameBounds == AllDone /\ used[1][1] = used[2][1] => used[1][2] = used[2][2]
(* sequential contract 2: whatever a thread inserted is in the cache afterwards *)
NoLostEntry == AllDone => \A t \in {1, 2} : \E e \in objs[cache.obj] : e[1] = used[t][1]
=============================================================================
