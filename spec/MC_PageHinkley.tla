--------------------------- MODULE MC_PageHinkley ---------------------------
(* All observation sequences over a 4-value alphabet up to Depth, all Configs; a twin restarted
   from scratch after every drift (C02); user resets at arbitrary points. *)
EXTENDS PageHinkley, TLC
CONSTANTS Depth
VARIABLES bcfg, btotal, bsince, bst, bmean, bsum, bmn, bmx, bdiff, btheta, bchk, bnrows, bfresh, off
Alphabet == {"0.0", "1.0", "4.5", "-3.0"}
Configs == { [burn |-> b, delta |-> d, thr |-> t, dir |-> dr] :
               b \in {0, 1, 3}, d \in {"0.01"}, t \in {"0.5", "2.0"}, dr \in {"positive", "negative"} }
B == INSTANCE PageHinkley WITH cfg <- bcfg, total <- btotal, since <- bsince, st <- bst, mean <- bmean,
        sum <- bsum, mn <- bmn, mx <- bmx, diff <- bdiff, theta <- btheta, chk <- bchk, nrows <- bnrows
bvars == <<bcfg, btotal, bsince, bst, bmean, bsum, bmn, bmx, bdiff, btheta, bchk, bnrows>>
vars == <<phvars, bvars, bfresh, off>>
Init == /\ \E c \in Configs : InitWith(c) /\ B!InitWith(c)
        /\ bfresh = FALSE /\ off = 0
Update == \E x \in Alphabet :
            /\ (st = "drift" => bfresh)
            /\ Step(x) /\ B!Step(x) /\ bfresh' = FALSE /\ off' = off
TwinRestart == /\ st = "drift" /\ ~bfresh
               /\ bcfg' = cfg /\ btotal' = 0 /\ bsince' = 0 /\ bst' = "None" /\ bmean' = "0.0" /\ bsum' = "0.0"
               /\ bmn' = "0.0" /\ bmx' = "0.0" /\ bdiff' = "0.0" /\ btheta' = "0.0" /\ bchk' = FALSE /\ bnrows' = 0
               /\ bfresh' = TRUE /\ off' = total /\ UNCHANGED phvars
Next == Update \/ TwinRestart
Spec == Init /\ [][Next]_vars
Bound == TLCGet("level") <= Depth

LC == INSTANCE Lifecycle WITH ltab <- [restart |-> 1, incs |-> {1}, hasrecs |-> FALSE, epochbound |-> TRUE, refrestart |-> FALSE],
                              state <- st, warm <- (since > cfg.burn), recs <- <<-1, -1>>
LCSpec == LC!Spec
TypeOK == LC!TypeOK /\ st # "warning"
NoAlarmInBurnIn == since <= cfg.burn => st # "drift"
(* drift exactly when the documented test fires past the burn-in (definite comparisons only) *)
PHRule == /\ (st = "drift" => since > cfg.burn /\ ~DefLt(diff, theta))
          /\ (since > cfg.burn /\ DefGt(diff, theta) /\ nrows > 0 => st = "drift")
(* the extremes bracket the cumulative sum, so the PH difference is never negative *)
Extremes == nrows > 0 => ~DefLt(sum, mn) /\ ~DefGt(sum, mx) /\ ~DefLt(diff, 0) /\ nrows = since
TwinAgree == ~bfresh => /\ bst = st /\ bsince = since /\ btotal + off = total
                        /\ Close(bmean, mean) /\ Close(bsum, sum) /\ Close(bmn, mn) /\ Close(bmx, mx)
                        /\ Close(bdiff, diff) /\ Close(btheta, theta)
\* (numbers are compared up to rounding: a comparison that is ambiguous within 1e-9 lets the two
\*  instances take different branches, e.g. min = -0.01 versus -0.00999999999999911)
==========================================================================
