SPECIFICATION Spec
CONSTANT Depth = 15
CONSTRAINT Bound
INVARIANT TypeOK
INVARIANT NoEarly
INVARIANT RecsRange
INVARIANT RecsFirstWarn
INVARIANT MinTracked
INVARIANT TwinAgree
PROPERTY LCSpec
CHECK_DEADLOCK FALSE
