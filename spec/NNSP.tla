--------------------------------- MODULE NNSP ---------------------------------
(* C10 - the nearest-neighbour space partitioner and NN-DVI, on integer lattice points.
   s1, s2: sequences of points (tuples of integers).
     D      the lexicographically sorted distinct points of the union
     v1/v2  membership of exactly the points of s1 / of s2 over D
     nb     for every point of D a set of k neighbour indices, the point itself included; ANY valid
            k-nearest relation is accepted (ties may be broken either way), validity is checked
     nnps   the adjacency scaled by lcm(row weights)/row weight - all weights are k, so nnps = adjacency
     d      (1/|D|) * SUM_j |a_j - b_j| / (a_j + b_j),  a_j (b_j) = number of s1 (s2) points that have j
            among their neighbours *)
EXTENDS Integers, Sequences, FiniteSets, SequencesExt, Num
RECURSIVE LexLess(_, _, _)
LexLess(p, q, i) == IF i > Len(p) THEN FALSE
                    ELSE IF p[i] < q[i] THEN TRUE ELSE IF p[i] > q[i] THEN FALSE ELSE LexLess(p, q, i + 1)
PointSet(s) == { s[i] : i \in 1..Len(s) }
DistinctSorted(s1, s2) == SetToSortSeq(PointSet(s1) \cup PointSet(s2), LAMBDA p, q : LexLess(p, q, 1))
Member(D, s) == [i \in 1..Len(D) |-> IF D[i] \in PointSet(s) THEN 1 ELSE 0]
RECURSIVE Dist2(_, _, _)
Dist2(p, q, i) == IF i > Len(p) THEN 0 ELSE (p[i] - q[i]) * (p[i] - q[i]) + Dist2(p, q, i + 1)
(* nb[i] is a valid k-nearest-neighbour set of D[i] (itself included) *)
KnnValid(D, nb, k) ==
  \A i \in 1..Len(D) :
    /\ i \in nb[i] /\ Cardinality(nb[i]) = k /\ nb[i] \subseteq 1..Len(D)
    /\ \A j \in nb[i] : \A m \in (1..Len(D)) \ nb[i] : Dist2(D[i], D[j], 1) <= Dist2(D[i], D[m], 1)
(* how many points of the sample with membership v have j among their neighbours *)
Hits(v, nb, j) == Cardinality({ i \in 1..Len(v) : v[i] = 1 /\ j \in nb[i] })
Term(a, b) == NDiv(IF a >= b THEN a - b ELSE b - a, a + b)
NnpsDistance(v1, v2, nb) ==
  NDiv(NSumSeq([j \in 1..Len(v1) |-> Term(Hits(v1, nb, j), Hits(v2, nb, j))]), Len(v1))
(* exact form of the same distance as a pair <<numerator, denominator>> scaled by a common multiple M of all a_j + b_j *)
ScaledSum(v1, v2, nb, M) ==
  LET t(j) == LET a == Hits(v1, nb, j)  b == Hits(v2, nb, j)
              IN (IF a >= b THEN a - b ELSE b - a) * (M \div (a + b))
      f[j \in 0..Len(v1)] == IF j = 0 THEN 0 ELSE f[j - 1] + t(j)
  IN f[Len(v1)]
=============================================================================
