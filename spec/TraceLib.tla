----------------------------- MODULE TraceLib -----------------------------
(* Shared part of every Trace_<M> specification (conformance A: traces recorded from the real
   classes are validated against the module's actions).

   The file named by the environment variable TRACE_FILE holds a BATCH of traces
       { "traces": [ { "cfg": {...}, "ev": [ {...event...}, ... ] }, ... ] }
   One initial state per trace id `tid`; `l` is the position of the next event to explain.
   Progress is recorded per trace in TLC's registers (Track, used as a CONSTRAINT; BFS makes `l`
   monotone) and judged for every trace by Post (POSTCONDITION): a trace is accepted iff some
   behaviour of the specification explains all of its events.  A failing conjunct reports itself
   through Chk so that a rejection names the clause that no branch could satisfy. *)
EXTENDS Integers, Sequences, TLC, Json, IOUtils
VARIABLES tid, l
Data   == JsonDeserialize(IOEnv.TRACE_FILE)
Traces == Data.traces
NTr    == Len(Traces)
Tr     == Traces[tid]
Ev     == Traces[tid].ev[l]
More   == l <= Len(Traces[tid].ev)
Adv    == l' = l + 1 /\ tid' = tid
Chk(name, got, want) ==
  IF got = want THEN TRUE
  ELSE PrintT("MISMATCH|" \o ToString(tid) \o "|" \o ToString(l) \o "|" \o name \o "|spec " \o ToString(got) \o " # logged " \o ToString(want)) /\ FALSE
ChkB(name, ok, info) ==
  IF ok THEN TRUE
  ELSE PrintT("MISMATCH|" \o ToString(tid) \o "|" \o ToString(l) \o "|" \o name \o "|" \o ToString(info)) /\ FALSE
(* a diagnostic that never blocks: reported only if the trace ends up rejected at this event *)
Note(name, cond, info) ==
  IF cond THEN PrintT("MISMATCH|" \o ToString(tid) \o "|" \o ToString(l) \o "|" \o name \o "|" \o ToString(info)) ELSE TRUE
Track  == TLCSet(tid, l)
Post   == \A t \in 1..NTr :
            IF TLCGet(t) = Len(Traces[t].ev) + 1 THEN TRUE
            ELSE PrintT("REJECT|" \o ToString(t) \o "|" \o ToString(TLCGet(t)))
ASSUME \A t \in 1..NTr : TLCSet(t, 0)
============================================================================
