----------------------------- MODULE Gen_Election -----------------------------
(* Conformance B: TLC enumerates every case of the stateless elections and every transition of
   the ConfirmedElection machine and prints them (one JSON object per line, prefix GEN|); the
   harness executes each one on the real classes with stub detectors and compares. *)
EXTENDS MC_Election, Json
Emit(r) == PrintT("GEN|" \o ToJson(r))
GenStateless ==
  \A v \in AllVectors :
    /\ Emit([kind |-> "majority", v |-> v, out |-> Majority(v)])
    /\ \A a \in Params : Emit([kind |-> "min", v |-> v, a |-> a, out |-> MinApproval(a, v)])
    /\ \A a \in Params, c \in Params : Emit([kind |-> "ordered", v |-> v, a |-> a, c |-> c, out |-> OrderedApproval(a, c, v)])
ASSUME GenStateless
GenCall == \E v \in Vectors(n) :
             /\ CallV(v)
             /\ Emit([kind |-> "confirmed", sens |-> sens, wait |-> wait, cnt |-> cnt, v |-> v,
                      out |-> verdict', cnt2 |-> cnt'])
GenSpec == Init /\ [][GenCall]_vars
=============================================================================
