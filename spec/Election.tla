------------------------------ MODULE Election ------------------------------
(* C13 - the four election schemes of menelaus.ensemble, each in two forms:
   as the procedure the class documents (a scan over the members in insertion order) and as the
   voting rule the property states.  v is a sequence of member states. *)
EXTENDS Integers, Sequences, FiniteSets
States == {"None", "warning", "drift"}
NDrift(v) == Cardinality({i \in 1..Len(v) : v[i] = "drift"})
NWarn(v)  == Cardinality({i \in 1..Len(v) : v[i] = "warning"})

(* ---- voting rules (property form) ---- *)
MajorityRule(v)      == IF 2 * NDrift(v) > Len(v) THEN "drift" ELSE "None"
MinApprovalRule(a, v) == IF NDrift(v) >= a /\ Len(v) >= 1 THEN "drift" ELSE "None"
OrderedRule(a, c, v)  == IF NDrift(v) >= a + c /\ NDrift(v) >= 1 THEN "drift" ELSE "None"

(* ---- procedural forms ---- *)
Majority(v) == IF NDrift(v) > Len(v) \div 2 THEN "drift" ELSE "None"
RECURSIVE MinScan(_, _, _, _)
MinScan(a, v, i, n) ==            \* n approvals counted among members 1..i-1
  IF i > Len(v) THEN "None"
  ELSE LET n1 == IF v[i] = "drift" THEN n + 1 ELSE n
       IN IF n1 >= a THEN "drift" ELSE MinScan(a, v, i + 1, n1)
MinApproval(a, v) == MinScan(a, v, 1, 0)
RECURSIVE OrdScan(_, _, _, _, _, _)
OrdScan(a, c, v, i, na, nc) ==
  IF i > Len(v) THEN "None"
  ELSE IF v[i] = "drift"
         THEN LET na1 == IF na < a THEN na + 1 ELSE na
                  nc1 == IF na < a THEN nc ELSE nc + 1
              IN IF na1 >= a /\ nc1 >= c THEN "drift" ELSE OrdScan(a, c, v, i + 1, na1, nc1)
       ELSE OrdScan(a, c, v, i + 1, na, nc)
OrderedApproval(a, c, v) == OrdScan(a, c, v, 1, 0, 0)

(* ---- ConfirmedElection(sensitivity, wait_time): per-member wait counters ---- *)
(* member i in one call, given its counter k and state s: <<is voter, is warning, next counter before expiry>> *)
MemberStep(k, s) ==
  IF s = "drift" /\ k = 0 THEN <<1, 0, 1>>
  ELSE IF s = "warning" THEN <<0, 1, k>>
  ELSE IF k # 0 THEN <<1, 0, k + 1>>
  ELSE <<0, 0, k>>
RECURSIVE SumF(_, _)
SumF(f, n) == IF n = 0 THEN 0 ELSE f[n] + SumF(f, n - 1)
ConfVoters(cnt, v) == SumF([i \in 1..Len(v) |-> MemberStep(cnt[i], v[i])[1]], Len(v))
ConfWarns(cnt, v)  == SumF([i \in 1..Len(v) |-> MemberStep(cnt[i], v[i])[2]], Len(v))
ConfVerdict(sens, cnt, v) ==
  IF ConfVoters(cnt, v) >= sens THEN "drift"
  ELSE IF ConfVoters(cnt, v) + ConfWarns(cnt, v) >= sens THEN "warning" ELSE "None"
ConfNext(wait, cnt, v) ==
  [i \in 1..Len(v) |-> LET k == MemberStep(cnt[i], v[i])[3] IN IF k > wait THEN 0 ELSE k]
=============================================================================
