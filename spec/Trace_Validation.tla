--------------------------- MODULE Trace_Validation ---------------------------
(* Trace validation for C14.  Event = one update / set_reference call on a real detector:
   ev.inp the abstract input, ev.raised the exception class ("None" if accepted), ev.total the
   detector's total counter afterwards, ev.out a digest of everything the detector reports and
   ev.tout the digest of a real twin that is fed only the well-formed calls, each in a canonical
   ndarray container ("-" when there is nothing to compare). *)
EXTENDS Validation, TraceLib
tvars == <<valvars, tid, l>>
Devs == IF "DEVIATIONS" \in DOMAIN IOEnv THEN IOEnv.DEVIATIONS ELSE ""
Init == /\ tid \in 1..NTr /\ l = 1 /\ InitWith(Traces[tid].cfg)
Incs == Traces[tid].cfg.incs
Twin == Ev.tout = "-" \/ Chk("output = output of the twin that never saw the refused calls", Ev.out, Ev.tout)
Accepted == /\ More /\ ~broken /\ Ev.op = "update" /\ Ev.raised = "None"
            /\ \E inc \in {Incs[k] : k \in 1..Len(Incs)} : Accept(Ev.inp, inc)
            /\ Chk("total", total', Ev.total) /\ Twin /\ Adv
AcceptedRef == /\ More /\ ~broken /\ Ev.op = "set_reference" /\ Ev.raised = "None"
               /\ \E inc \in {0, 1} : AcceptRef(Ev.inp, inc)
               /\ Chk("total", total', Ev.total) /\ Twin /\ Adv
Rejected == /\ More /\ ~broken /\ Ev.raised = "ValueError"
            /\ Reject(Ev.inp) /\ Chk("total", total', Ev.total) /\ Adv
DevWidthSkip == /\ Devs = "DFWidthSkip" /\ More /\ ~broken
                /\ Dev_DFWidthSkip(Ev.inp) /\ total' = Ev.total /\ Adv
DevRejEst == /\ Devs = "RejectedEstablishes" /\ More /\ ~broken /\ Ev.raised = "ValueError"
             /\ Dev_RejectedEstablishes(Ev.inp) /\ Chk("total", total', Ev.total) /\ Adv
Havoc == /\ More /\ broken /\ total' = Ev.total /\ UNCHANGED <<vcfg, dim, cols, accepted, broken>> /\ Adv
Diag == /\ Note("accepted although the rule refuses this input", More /\ ~broken /\ Ev.raised = "None" /\ ~Valid(Ev.inp), <<Ev.inp, "dim", dim, "cols", cols>>)
        /\ Note("refused although the rule accepts this input", More /\ ~broken /\ Ev.raised # "None" /\ Valid(Ev.inp), <<Ev.inp, Ev.raised, "dim", dim, "cols", cols>>)
Next == Diag /\ (Accepted \/ AcceptedRef \/ Rejected \/ DevWidthSkip \/ DevRejEst \/ Havoc)
Spec == Init /\ [][Next]_tvars
=============================================================================
