--------------------------- MODULE Trace_Validation ---------------------------
(* Trace validation for C14.  Event = one update / set_reference call on a real detector:
   ev.inp the abstract input, ev.raised the exception class ("None" if accepted), ev.total the
   detector's total counter afterwards, ev.out a digest of everything the detector reports and
   ev.tout the digest of a real twin that is fed only the well-formed calls, each in a canonical
   ndarray container ("-" when there is nothing to compare). *)
EXTENDS Validation, TraceLib
VARIABLE pend       \* the detector reported drift after the last accepted call: its restart (for HDDDM / CDBD with
                    \* detect_batch = 1 this replays half of the new reference as a COUNTED proxy batch) is still pending and is
                    \* performed by the next call - also by one that is then refused
tvars == <<valvars, tid, l, pend>>
Devs == IF "DEVIATIONS" \in DOMAIN IOEnv THEN IOEnv.DEVIATIONS ELSE ""
Init == /\ tid \in 1..NTr /\ l = 1 /\ InitWith(Traces[tid].cfg) /\ pend = FALSE
Incs == Traces[tid].cfg.incs
Proxy == IF \E k \in 1..Len(Incs) : Incs[k] = 2 THEN 1 ELSE 0     \* what a restart adds to the counter
Twin == Ev.tout = "-" \/ Chk("output = output of the twin that never saw the refused calls", Ev.out, Ev.tout)
Accepted == /\ More /\ ~broken /\ Ev.op = "update" /\ Ev.raised = "None"
            /\ Accept(Ev.inp, IF pend THEN 1 + Proxy ELSE 1)
            /\ Chk("total", total', Ev.total) /\ Twin /\ pend' = Ev.drift /\ Adv
AcceptedRef == /\ More /\ ~broken /\ Ev.op = "set_reference" /\ Ev.raised = "None"
               /\ \E inc \in {0, 1} : AcceptRef(Ev.inp, inc)
               /\ Chk("total", total', Ev.total) /\ Twin /\ pend' = Ev.drift /\ Adv
(* a refused call is never counted; it may perform the pending restart, whose proxy batch is *)
Rejected == /\ More /\ ~broken /\ Ev.raised = "ValueError"
            /\ ~Valid(Ev.inp) /\ UNCHANGED <<vcfg, dim, cols, accepted, broken>>
            /\ \/ total' = total /\ pend' = pend
               \/ pend /\ Proxy = 1 /\ total' = total + 1 /\ pend' = FALSE
            /\ Chk("total", total', Ev.total) /\ Adv
DevWidthSkip == /\ Devs = "DFWidthSkip" /\ More /\ ~broken
                /\ Dev_DFWidthSkip(Ev.inp) /\ total' = Ev.total /\ pend' = pend /\ Adv
DevRejEst == /\ Devs = "RejectedEstablishes" /\ More /\ ~broken /\ Ev.raised = "ValueError"
             /\ Dev_RejectedEstablishes(Ev.inp) /\ Chk("total", total', Ev.total) /\ pend' = pend /\ Adv
Havoc == /\ More /\ broken /\ total' = Ev.total /\ UNCHANGED <<vcfg, dim, cols, accepted, broken, pend>> /\ Adv
Diag == /\ Note("accepted although the rule refuses this input", More /\ ~broken /\ Ev.raised = "None" /\ ~Valid(Ev.inp), <<Ev.inp, "dim", dim, "cols", cols>>)
        /\ Note("refused although the rule accepts this input", More /\ ~broken /\ Ev.raised # "None" /\ Valid(Ev.inp), <<Ev.inp, Ev.raised, "dim", dim, "cols", cols>>)
Next == Diag /\ (Accepted \/ AcceptedRef \/ Rejected \/ DevWidthSkip \/ DevRejEst \/ Havoc)
Spec == Init /\ [][Next]_tvars
=============================================================================
