SPECIFICATION Spec
CONSTANT R = 4
CONSTANT C = 2
INVARIANT ShapeKept
CHECK_DEADLOCK FALSE
