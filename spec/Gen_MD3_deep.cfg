SPECIFICATION GSpec
CONSTANT Depth = 5
CONSTRAINT Bound
INVARIANT Emit
CHECK_DEADLOCK FALSE
