------------------------------ MODULE Trace_LFR ------------------------------
(* Trace validation for LinearFourRates.  Public: drift_state, retraining_recs, all_drift_states,
   counters.  Optional private reads: the statistics, the confusion matrix, the bounds dictionary. *)
EXTENDS LFR, TraceLib
tvars == <<lfrvars, tid, l>>
TCfg(c) == [eta |-> c.eta, burn |-> c.burn, sub |-> c.sub, rv |-> c.rv, tracked |-> { c.tracked[i] : i \in 1..Len(c.tracked) }]
Init == /\ tid \in 1..NTr /\ l = 1 /\ InitWith(TCfg(Traces[tid].cfg))
RStatOK == \A i \in 1..4 : IF Ev.rstat[i] = "NA" THEN TRUE
                           ELSE ChkB("statistic " \o Rates[i], Close(R'[Rates[i]], Ev.rstat[i]), <<R'[Rates[i]], Ev.rstat[i]>>)
ConfOK == IF Ev.conf[1] = -1 THEN TRUE ELSE Chk("confusion matrix", <<conf'.tn, conf'.fn, conf'.fp, conf'.tp>>, Ev.conf)
Upd == /\ More /\ Ev.op = "update"
       /\ Step(Ev.yt, Ev.yp, Ev.b, Ev.br)
       /\ Chk("total", total', Ev.total) /\ Chk("since", since', Ev.since) /\ Chk("state", st', Ev.state)
       /\ Chk("recs", recs', Ev.recs) /\ Chk("len(all_drift_states)", total', Ev.nstates) /\ Chk("all_drift_states[-1]", st', Ev.laststate)
       /\ RStatOK /\ ConfOK /\ Adv
Rst == /\ More /\ Ev.op = "reset" /\ UserReset
       /\ Chk("total", total', Ev.total) /\ Chk("since", since', Ev.since) /\ Chk("state", st', Ev.state) /\ Chk("recs", recs', Ev.recs)
       /\ Chk("len(all_drift_states)", total', Ev.nstates) /\ Adv
(* a call with several labels at once is refused: nothing changes, except that the restart pending after a reported drift has already been
   performed (LinearFourRates restarts before it validates) *)
Bad == /\ More /\ Ev.op = "bad"
       /\ \/ UNCHANGED lfrvars
          \/ st = "drift" /\ UserReset
       /\ Chk("total", total', Ev.total) /\ Chk("since", since', Ev.since) /\ Chk("state", st', Ev.state) /\ Chk("recs", recs', Ev.recs)
       /\ Chk("len(all_drift_states)", total', Ev.nstates) /\ ChkB("refused with ValueError", Ev.raised = "ValueError", Ev.raised) /\ Adv
Diag == Note("Monte-Carlo bounds not well-formed, not inside their bracket on first use, or changed for a cached key",
             More /\ Ev.op = "update" /\ Tested((IF st = "drift" THEN 0 ELSE since) + 1) /\
             \E r \in lcfg.tracked : ~Ev.b[r].na /\
                LET c1 == Bump(IF st = "drift" THEN Ones ELSE conf, Ev.yt, Ev.yp) IN
                \/ ~BoundsWellFormed(Ev.b[r])
                \/ Known(Key(r, c1)) /\ Ev.b[r] # cache[Lookup(Key(r, c1))][2]
                \/ ~Known(Key(r, c1)) /\ ~\E r2 \in lcfg.tracked : Key(r2, c1) = Key(r, c1) /\ Ev.b[r2] = Ev.b[r] /\ BracketOK(Ev.b[r2], Ev.br[r2]),
             <<"bounds", Ev.b, "brackets", Ev.br>>)
Next == Diag /\ (Upd \/ Rst \/ Bad)
Spec == Init /\ [][Next]_tvars
=============================================================================
