----------------------------- MODULE Trace_PCACD -----------------------------
(* Trace validation for PCACD.  ev.k: the kernel table entry of this step (ranges + independently computed
   score and number of components); ev.obs: the change score the implementation appended ("NA" when the
   private list is unreadable, "None" when it appended nothing).  The observed score is what drives the
   embedded Page-Hinkley test (bit-exact); the kernel value is checked against it separately. *)
EXTENDS PCACD, TraceLib
tvars == <<pcavars, tid, l>>
Init == /\ tid \in 1..NTr /\ l = 1 /\ InitWith(Traces[tid].cfg)
KFeed == IF Ev.obs \in {"NA", "None"} THEN Ev.k ELSE [Ev.k EXCEPT !.score = Ev.obs]
Upd == /\ More /\ Ev.op = "update"
       /\ ChkB("kernel reference range", phase # "Monitor" \/ ~Scheduled(total + 1) \/ Ev.k.ref = refR, <<Ev.k.ref, refR>>)
       /\ Step(KFeed)
       /\ Chk("total", total', Ev.total) /\ Chk("since", since', Ev.since) /\ Chk("state", st', Ev.state)
       /\ Chk("num_pcs", npcs', Ev.npcs)
       /\ IF Ev.obs = "NA" THEN TRUE
          ELSE /\ Chk("a score is appended exactly on schedule", nscores' # nscores, Ev.obs # "None")
               /\ IF nscores' # nscores
                    THEN ChkB("change score = max component divergence on aligned supports", NClose(Ev.obs, Ev.k.score, "1e-6"), <<Ev.obs, Ev.k.score>>)
                    ELSE TRUE
       /\ Adv
Rst == /\ More /\ Ev.op = "reset" /\ UserReset /\ Chk("since", since', Ev.since) /\ Chk("state", st', Ev.state) /\ Adv
(* a call refused by input validation (two rows, a wrong number of columns): nothing is counted, nothing moves - the scoring schedule included *)
Bad == /\ More /\ Ev.op = "bad" /\ UNCHANGED pcavars
       /\ Chk("total", total, Ev.total) /\ Chk("since", since, Ev.since) /\ Chk("state", st, Ev.state) /\ Adv
Next == Upd \/ Rst \/ Bad
Spec == Init /\ [][Next]_tvars
=============================================================================
