----------------------------- MODULE Trace_Product -----------------------------
EXTENDS Product, TraceLib
tvars == <<prodvars, tid, l>>
Init == /\ tid \in 1..NTr /\ l = 1 /\ InitWith(Traces[tid].cfg.rel)
Step == /\ More
        /\ ChkB("relation " \o rel, StepOK(Ev.a, Ev.b, Ev.fresh, Ev.cmp, Ev.off),
                <<"A", Ev.a, "B", Ev.b, "offset", IF Ev.fresh THEN Ev.off ELSE off, "prevA", prevA, "bDrifted", bDrifted>>)
        /\ Advance(Ev.a, Ev.b, Ev.fresh, Ev.off) /\ Adv
Next == Step
Spec == Init /\ [][Next]_tvars
=============================================================================
