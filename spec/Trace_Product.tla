----------------------------- MODULE Trace_Product -----------------------------
EXTENDS Product, TraceLib
tvars == <<prodvars, tid, l>>
Init == /\ tid \in 1..NTr /\ l = 1 /\ InitWith(Traces[tid].cfg.rel)
Step == /\ More
        /\ ChkB("relation " \o rel, StepOK(Ev.a, Ev.b, Ev.fresh, Ev.cmp, Ev.off),
                <<"A", Ev.a, "B", Ev.b, "offset", IF Ev.fresh THEN Ev.off ELSE off, "prevA", prevA, "bDrifted", bDrifted>>)
        /\ Advance(Ev.a, Ev.b, Ev.fresh, Ev.off) /\ Adv
(* ---- known departure of the code (open finding F27; switched on only in the second pass over rejected traces) ----
   Page-Hinkley compares the difference PH - min (>= 0) with  threshold x running mean.  While the running mean is NEGATIVE every positive
   threshold gives a negative level, which a difference of exactly 0 already exceeds, whereas threshold 0 gives the level 0, which it does
   not: the run with the LARGER threshold alarms first.  The step is explained by the finding iff exactly that is on record: family
   PageHinkley, the stricter run alarms and the looser one does not, the looser run's level is 0, the stricter run's level is negative and
   its difference is exactly 0.  (nums of a Page-Hinkley projection: value, difference, level, minimum, maximum, mean) *)
Devs == IF "DEVIATIONS" \in DOMAIN IOEnv THEN IOEnv.DEVIATIONS ELSE ""
DevPHNegativeMean ==
  /\ Devs = "PHNegativeMeanZeroThreshold" /\ More /\ rel = "FirstDriftNotLater"
  /\ Traces[tid].cfg.fam = "PageHinkley"
  /\ Ev.a.state = "drift" /\ Ev.b.state # "drift" /\ ~bDrifted
  /\ Len(Ev.a.nums) = 6 /\ Len(Ev.b.nums) = 6
  /\ NSign(Ev.b.nums[3]) = 0 /\ NSign(Ev.a.nums[3]) = -1 /\ NSign(Ev.a.nums[2]) = 0 /\ NSign(Ev.a.nums[6]) = -1
  /\ Advance(Ev.a, Ev.b, Ev.fresh, Ev.off) /\ Adv
Next == Step \/ DevPHNegativeMean
Spec == Init /\ [][Next]_tvars
=============================================================================
