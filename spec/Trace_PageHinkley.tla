------------------------- MODULE Trace_PageHinkley -------------------------
(* Trace validation for PageHinkley.  Events: update(x) with the last row of to_dataframe() in
   the projection, reset(), and refused calls (raised # "None": nothing may change). *)
EXTENDS PageHinkley, TraceLib
tvars == <<phvars, tid, l>>
Init == /\ tid \in 1..NTr /\ l = 1 /\ InitWith(Traces[tid].cfg)
Counters == /\ Chk("total", total', Ev.total) /\ Chk("since", since', Ev.since) /\ Chk("state", st', Ev.state)
            /\ Chk("nrows", nrows', Ev.nrows)
NumChk(name, a, b) == ChkB(name, Close(a, b), <<a, b>>)
Update == /\ More /\ Ev.op = "update" /\ Ev.raised = "None"
          /\ Step(Ev.x)
          /\ Counters
          /\ NumChk("mean", mean', Ev.mean) /\ NumChk("sum", sum', Ev.sum) /\ NumChk("theta", theta', Ev.theta)
          /\ NumChk("min", mn', Ev.mn) /\ NumChk("max", mx', Ev.mx) /\ NumChk("diff", diff', Ev.diff)
          /\ Chk("drift_detected", chk', Ev.chk)
          /\ Adv
UserReset == /\ More /\ Ev.op = "reset" /\ Reset /\ Counters /\ Adv
Refused == /\ More /\ Ev.op = "bad" /\ Ev.raised = "ValueError" /\ (UNCHANGED phvars \/ PendingReset) /\ Counters /\ Adv
Next == Update \/ UserReset \/ Refused
Spec == Init /\ [][Next]_tvars
==========================================================================
