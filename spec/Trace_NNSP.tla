------------------------------ MODULE Trace_NNSP ------------------------------
(* Trace validation for NNSpacePartitioner.build / compute_nnps_distance and for NNDVI histories. *)
EXTENDS NNDVI, TraceLib
tvars == <<nnvars, tid, l>>
Init == /\ tid \in 1..NTr /\ l = 1 /\ InitWith(Traces[tid].cfg)
DOK(d, logged) == ChkB("nnps distance", Close(d, logged), <<d, logged>>)
(* partitioner alone: public D, v1, v2, adjacency (as neighbour lists), distance both ways *)
BuildEv == /\ More /\ Ev.op = "build"
           /\ Chk("D", DistinctSorted(Ev.s1, Ev.s2), Ev.part.D)
           /\ Chk("v1 = members of sample 1", Member(Ev.part.D, Ev.s1), Ev.part.v1)
           /\ Chk("v2 = members of sample 2", Member(Ev.part.D, Ev.s2), Ev.part.v2)
           /\ ChkB("adjacency is a k-nearest relation incl. self", KnnValid(Ev.part.D, ToSets(Ev.part.nb), Ev.k), Ev.part.nb)
           /\ DOK(NnpsDistance(Ev.part.v1, Ev.part.v2, ToSets(Ev.part.nb)), Ev.d)
           /\ ChkB("symmetric", Close(Ev.d, Ev.dswap), <<Ev.d, Ev.dswap>>)
           /\ ChkB("in [0,1]", NSign(Ev.d) \in {0, 1} /\ ~DefGt(Ev.d, 1), Ev.d)
           /\ ChkB("d(s,s) = 0", NSign(Ev.dself) = 0, Ev.dself)
           /\ UNCHANGED nnvars /\ Adv
Counters == /\ Chk("total", total', Ev.total) /\ Chk("since", since', Ev.since) /\ Chk("state", st', Ev.state)
            /\ Chk("reference_batch", ref', Ev.ref)
RefEv == /\ More /\ Ev.op = "set_reference" /\ SetReference(Ev.data) /\ Counters /\ Adv
PartChk(part, a, b) ==
  /\ Chk("D", DistinctSorted(a, b), part.D)
  /\ Chk("v1 = members of the reference", Member(part.D, a), part.v1)
  /\ Chk("v2 = members of the batch", Member(part.D, b), part.v2)
UpdEv == /\ More /\ Ev.op = "update"
         /\ PartChk(Ev.part, ref, Ev.data)
         /\ ChkB("threshold inside its bracket", ThetaOK(Ev.th), Ev.th)
         /\ Update(Ev.data, Ev.part, Ev.th) /\ Counters /\ Adv
RstEv == /\ More /\ Ev.op = "reset" /\ UserReset /\ Counters /\ Adv
(* a malformed set_reference / update: refused, nothing moves (counters, state and the retained reference are as before) - except that an update
   refused right after a drift may already have performed the pending automatic reset (as in every other module: PendingReset) *)
RefusedEv == /\ More /\ Ev.op = "refused" /\ (UNCHANGED nnvars \/ (st = "drift" /\ UserReset)) /\ Counters /\ Adv
Next == BuildEv \/ RefEv \/ UpdEv \/ RstEv \/ RefusedEv
Spec == Init /\ [][Next]_tvars
=============================================================================
