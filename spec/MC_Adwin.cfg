SPECIFICATION Spec
CONSTANT Depth = 11
CONSTRAINT Bound
INVARIANT TypeOK
INVARIANT NoEarly
INVARIANT LayoutOK
INVARIANT NoCutLeft
INVARIANT RecsWindow
PROPERTY LCSpec
PROPERTY GrowOrCut
CHECK_DEADLOCK FALSE
