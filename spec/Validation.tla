----------------------------- MODULE Validation -----------------------------
(* C14 - uniform input validation of every detector (menelaus/detector.py).
   An input X is abstracted to  [frame, rows, width, names]:
     frame  TRUE for a pandas DataFrame;    rows / width  its shape after the documented coercion
     names  the column names of a DataFrame (a string such as "a,b"), "-" otherwise.
   Memory:  dim  the established number of feature columns (-1: none yet)
            cols the established column names ("-": none yet).
   The rule (from the property): row count first, then names, then width, then the univariate
   guard; an accepted input establishes what is not yet established; a rejected call changes
   nothing at all.

   Deviation actions describe where the code is known to depart from this rule; they are NOT part
   of Next unless switched on (known findings, see known_findings.json). *)
EXTENDS Integers, Sequences
VARIABLES vcfg,     \* [kind ("stream"|"batch"), univ (BOOLEAN)]
          dim, cols, total,
          accepted, \* the sequence of accepted inputs: everything a detector reports afterwards is a function of it
          broken    \* set by a deviation action: nothing is claimed about the detector afterwards
valvars == <<vcfg, dim, cols, total, accepted, broken>>
InitWith(c) == vcfg = c /\ dim = -1 /\ cols = "-" /\ total = 0 /\ accepted = <<>> /\ broken = FALSE

RowsOK(inp) == IF vcfg.kind = "stream" THEN inp.rows = 1 ELSE inp.rows >= 2
NamesOK(inp) == ~inp.frame \/ cols = "-" \/ inp.names = cols
WidthOK(inp) == dim = -1 \/ inp.width = dim
UnivOK(inp)  == ~vcfg.univ \/ inp.width = 1
Valid(inp) == RowsOK(inp) /\ NamesOK(inp) /\ WidthOK(inp) /\ UnivOK(inp)

Establish(inp) == /\ dim' = inp.width
                  /\ cols' = (IF inp.frame /\ cols = "-" THEN inp.names ELSE cols)
(* an accepted update; inc = how much the detector's total counter moves (1; HDM counts a proxy batch too) *)
Accept(inp, inc) == /\ Valid(inp) /\ Establish(inp)
                    /\ total' = total + inc /\ accepted' = Append(accepted, inp)
                    /\ UNCHANGED <<vcfg, broken>>
(* an accepted set_reference: establishes memory, is not an update *)
AcceptRef(inp, inc) == /\ Valid(inp) /\ Establish(inp)
                       /\ total' = total + inc /\ accepted' = <<inp>>
                       /\ UNCHANGED <<vcfg, broken>>
Reject(inp) == ~Valid(inp) /\ UNCHANGED valvars

(* ---- known departures of the code (deviation actions) ---- *)
(* a DataFrame arriving when only a width (no names) is established skips the width check: the
   wrong-width frame is accepted by validation, overwrites the memory, and whatever the detector
   does with it afterwards is undefined *)
Dev_DFWidthSkip(inp) ==
  /\ ~vcfg.univ        \* the univariate detectors refuse multi-column data themselves and restore the memory: the finding never shows there
  /\ inp.frame /\ cols = "-" /\ dim # -1 /\ inp.width # dim
  /\ broken' = TRUE /\ dim' = inp.width /\ cols' = inp.names
  /\ total' \in {total, total + 1} /\ UNCHANGED <<vcfg, accepted>>
(* a rejected input still establishes the width / names it carried (memory written before the check) *)
Dev_RejectedEstablishes(inp) ==
  /\ ~Valid(inp) /\ NamesOK(inp) /\ WidthOK(inp)
  /\ Establish(inp) /\ UNCHANGED <<vcfg, total, accepted, broken>>
=============================================================================
