---------------------------- MODULE Apa_Lifecycle ----------------------------
(* Unbounded-in-time extra for C01 (Apalache, inductive invariant): for each of the six lifecycle tables the fifteen real
   detector classes use, and for histories of ANY length and any interleaving of accepted updates, refused calls, user
   resets and set_reference calls, the lifecycle contract keeps
     - the counters natural with since <= total,
     - a reported drift's recommendation ending at the sample just processed (RecsRange).
   Init => IndInv is discharged at length 0, IndInv /\ Next => IndInv' at length 1.  This lifts the depth bound of the TLC
   runs on the detector models for the ABSTRACT contract (every detector model refines it: PROPERTY LC!Spec); it is an
   addition to, not a replacement of, those runs. *)
EXTENDS Lifecycle
\* @type: Set({restart: Int, incs: Set(Int), hasrecs: Bool, epochbound: Bool, refrestart: Bool});
Tables == { [restart |-> 1, incs |-> {1}, hasrecs |-> TRUE, epochbound |-> TRUE, refrestart |-> FALSE],       \* DDM, EDDM, STEPD, LFR
            [restart |-> 1, incs |-> {1}, hasrecs |-> TRUE, epochbound |-> FALSE, refrestart |-> FALSE],      \* ADWIN, ADWINAccuracy
            [restart |-> 1, incs |-> {1}, hasrecs |-> FALSE, epochbound |-> TRUE, refrestart |-> FALSE],      \* CUSUM, PageHinkley, NNDVI, MD3, HDDDM/CDBD detect_batch 2, 3
            [restart |-> 1, incs |-> {1}, hasrecs |-> FALSE, epochbound |-> TRUE, refrestart |-> TRUE],       \* the kdq-tree detectors
            [restart |-> 2, incs |-> {1, 2}, hasrecs |-> FALSE, epochbound |-> TRUE, refrestart |-> FALSE],   \* HDDDM/CDBD detect_batch 1
            [restart |-> 0, incs |-> {1}, hasrecs |-> FALSE, epochbound |-> TRUE, refrestart |-> FALSE] }     \* PCACD
ApaInit == Init /\ ltab \in Tables
(* Lifecycle.Accepted constrains recs' without assigning it (under TLC recs' is always bound by the refining module or by the trace);
   Apalache wants an assignment first: any pair of integers >= -1, then the very same action *)
ApaAccepted == \E r1, r2 \in Int : r1 >= -1 /\ r2 >= -1 /\ recs' = <<r1, r2>> /\ Accepted
ApaNext == ApaAccepted \/ Rejected \/ UserReset \/ AcceptedRefComplete \/ SetReference
(* negative control: the reset action as it was first written (since' and total' chosen independently) does NOT keep since <= total -
   the run over ApaNextLoose must be refuted, which shows that the obligation bites *)
LooseReset == /\ ltab' = ltab /\ state' = "None" /\ since' \in {0, 1} /\ (\E inc \in {0, 1} : total' = total + inc)
              /\ recs' = (IF HasRecs THEN NoRecs ELSE recs) /\ warm' \in BOOLEAN
ApaNextLoose == ApaNext \/ LooseReset
IndInv == /\ ltab \in Tables
          /\ TypeOK /\ RecsRange          \* (NoEarly is a property of accepted updates - a conjunct of Accepted - not a state invariant: NNDVI keeps
                                       \*  a reported drift visible across set_reference, when the new epoch has seen nothing yet)
          /\ (state = "drift" => total >= 1)
IndInit == /\ ltab \in Tables /\ total \in Nat /\ since \in Nat /\ state \in States /\ warm \in BOOLEAN
           /\ (\E r1, r2 \in Int : recs = <<r1, r2>>)
           /\ IndInv
=============================================================================
