----------------------------- MODULE Lifecycle -----------------------------
(* C01 - the lifecycle contract every menelaus detector is meant to follow, written from the
   documentation (not from any detector's code).  Every detector module refines this module
   (PROPERTY LC!Spec in its MC_ configuration) and traces of all 15 real classes are validated
   against it (Trace_Lifecycle).

   total  number of samples / batches processed            since  ... since the last (auto) reset
   state  "None" | "warning" | "drift"                     recs   <<first, last>> or <<-1,-1>>
   warm   the epoch fact "the documented minimum amount of data of the current epoch has been
          seen" - supplied by the refining module (burn_in, n_threshold, windows, schedule ...) *)
EXTENDS Integers
VARIABLES
  \* the per-detector table (never changes): [restart, incs, hasrecs, epochbound, refrestart]
  \* (the type annotations are read by Apalache - module Apa_Lifecycle - and ignored by TLC)
  \* @type: {restart: Int, incs: Set(Int), hasrecs: Bool, epochbound: Bool, refrestart: Bool};
  ltab
RestartTo  == ltab.restart     \* value `since` takes on the update that follows a drift (1; PCACD 0; HDM detect_batch=1: 2)
Incs       == ltab.incs        \* admissible increments of `total` per accepted update ({1}; HDM detect_batch=1: {1,2})
HasRecs    == ltab.hasrecs     \* detector exposes retraining_recs
EpochBound == ltab.epochbound  \* recs of an epoch never reach back before the epoch (all but ADWIN, whose window survives)
RefRestart == ltab.refrestart  \* the update completing a reference window restarts `since` at 0 (kdq-tree detectors only)
VARIABLES
  \* @type: Int;
  total,
  \* @type: Int;
  since,
  \* @type: Str;
  state,
  \* @type: <<Int, Int>>;
  recs,
  \* @type: Bool;
  warm
lcvars == <<ltab, total, since, state, recs, warm>>

States == {"None", "warning", "drift"}
\* @type: <<Int, Int>>;
NoRecs == <<-1, -1>>

TypeOK == /\ state \in States
          /\ total \in Nat /\ since \in Nat /\ since <= total
          /\ warm \in BOOLEAN
NoEarly   == state # "None" => warm
RecsRange == (HasRecs /\ state = "drift") =>
               /\ recs[1] # -1 /\ recs[1] <= recs[2] /\ recs[2] = total - 1

Init == /\ total = 0 /\ since = 0 /\ state = "None" /\ recs = NoRecs /\ warm \in BOOLEAN

(* an accepted update (sample or batch) *)
Accepted ==
  /\ ltab' = ltab
  /\ \E inc \in Incs : total' = total + inc
  /\ since' = IF state = "drift" THEN RestartTo ELSE since + 1
  /\ state' \in States
  /\ warm' \in BOOLEAN
  /\ state' # "None" => warm'
  /\ IF HasRecs
       THEN /\ recs'[1] \in Nat \cup {-1} /\ recs'[2] \in Nat \cup {-1}
            /\ state' = "drift" => /\ recs'[1] # -1 /\ recs'[1] <= recs'[2] /\ recs'[2] = total' - 1
            \* the update that follows a drift clears the recommendation: afterwards it is empty or new
            /\ state = "drift" => \/ recs' = NoRecs
                                  \/ /\ state' # "None"
                                     /\ recs'[1] # -1 => (EpochBound => recs'[1] >= total)
                                     /\ recs'[2] # -1 => recs'[2] = total' - 1
            /\ recs'[1] # -1 /\ recs'[2] # -1 => recs'[1] <= recs'[2]
            \* a recommendation STARTS only in an update that itself reports warning or drift, and it starts at that very sample
            \* (detectors whose recommendation is bound to the epoch; ADWIN's is its window)
            /\ (EpochBound /\ recs[1] = -1 /\ recs'[1] # -1) => (state' # "None" /\ recs'[1] = total' - 1)
       ELSE recs' = recs

(* the call is refused (exception): nothing observable changes *)
Rejected == UNCHANGED lcvars

(* what a restart WITHOUT an update re-processes: nothing, or (HDM detect_batch=1, reference present) the proxy batch split off the
   reference, which is counted in both counters at once *)
Reprocessed == {0} \cup {k \in {RestartTo - 1} : k >= 0 /\ k + 1 \in Incs}
(* user called reset() *)
UserReset == /\ ltab' = ltab /\ state' = "None"
             /\ (\E k \in Reprocessed : since' = k /\ total' = total + k)
             /\ recs' = (IF HasRecs THEN NoRecs ELSE recs) /\ warm' \in BOOLEAN

(* kdq-tree detectors: the update that completes the reference window (streaming) or is itself used as
   the reference (batch, first update without set_reference) is counted and restarts the epoch count at 0 *)
AcceptedRefComplete == /\ ltab' = ltab /\ RefRestart /\ total' = total + 1 /\ since' = 0 /\ state' = "None"
                       /\ recs' = recs /\ warm' \in BOOLEAN
(* set_reference on a batch detector: a new epoch starts, nothing is counted *)
SetReference == /\ ltab' = ltab
                /\ \/ \E k \in Reprocessed : since' = k /\ total' = total + k
                   \/ since' = since /\ total' = total
                /\ state' \in {"None", state}      \* (NNDVI keeps a reported drift visible until the next update)
                /\ warm' \in BOOLEAN /\ recs' = recs

Next == Accepted \/ Rejected \/ UserReset \/ AcceptedRefComplete \/ SetReference
Spec == Init /\ [][Next]_lcvars
============================================================================
