SPECIFICATION Spec
CONSTANT Depth = 14
CONSTRAINT Bound
INVARIANT TypeOK
INVARIANT NoEarly
INVARIANT LayoutOK
INVARIANT NoCutLeft
INVARIANT RecsWindow
PROPERTY LCSpec
PROPERTY GrowOrCut
CHECK_DEADLOCK FALSE
