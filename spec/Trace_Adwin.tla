---------------------------- MODULE Trace_Adwin ----------------------------
(* Trace validation for ADWIN / ADWINAccuracy: update(x) with mean(), variance(), recs, counters;
   the window length is private and logged as -1 when unreadable. *)
EXTENDS Adwin, TraceLib
(* the variance is accumulated in floating point: besides the relative tolerance of Close an absolute error of 1e-8 * mean^2 is
   admitted (cancellation noise for data of large magnitude, e.g. a constant window of values around 1e9) *)
VarClose(v, w, m) == Close(v, w) \/ ~DefGt(NAbs(NSub(v, w)), NMul("1e-8", NAdd(NMul(m, m), "1")))
tvars == <<adwinvars, tid, l>>
Init == /\ tid \in 1..NTr /\ l = 1 /\ InitWith(Traces[tid].cfg)
Counters == /\ Chk("total", total', Ev.total) /\ Chk("since", since', Ev.since) /\ Chk("state", st', Ev.state)
            /\ Chk("recs", recs', Ev.recs)
Update == /\ More /\ Ev.op = "update" /\ Ev.raised = "None"
          /\ Step(Ev.x) /\ Counters
          /\ (Ev.w = -1 \/ Chk("window", Len(win'), Ev.w))
          /\ ChkB("mean", Close(Mean', Ev.mean), <<Mean', Ev.mean>>)
          /\ ChkB("variance", VarClose(Variance', Ev.variance, Mean'), <<Variance', Ev.variance>>)
          /\ Adv
UserReset == /\ More /\ Ev.op = "reset" /\ Reset /\ Counters /\ Adv
Refused == /\ More /\ Ev.op = "bad" /\ Ev.raised = "ValueError" /\ (UNCHANGED adwinvars \/ PendingReset) /\ Counters /\ Adv
Next == Update \/ UserReset \/ Refused
Spec == Init /\ [][Next]_tvars
==========================================================================
