---------------------------- MODULE Trace_Adwin ----------------------------
(* Trace validation for ADWIN / ADWINAccuracy: update(x) with mean(), variance(), recs, counters;
   the window length is private and logged as -1 when unreadable. *)
EXTENDS Adwin, TraceLib
tvars == <<adwinvars, tid, l>>
Init == /\ tid \in 1..NTr /\ l = 1 /\ InitWith(Traces[tid].cfg)
Counters == /\ Chk("total", total', Ev.total) /\ Chk("since", since', Ev.since) /\ Chk("state", st', Ev.state)
            /\ Chk("recs", recs', Ev.recs)
Update == /\ More /\ Ev.op = "update" /\ Ev.raised = "None"
          /\ Step(Ev.x) /\ Counters
          /\ (Ev.w = -1 \/ Chk("window", Len(win'), Ev.w))
          /\ ChkB("mean", Close(Mean', Ev.mean), <<Mean', Ev.mean>>)
          /\ ChkB("variance", Close(Variance', Ev.variance), <<Variance', Ev.variance>>)
          /\ Adv
UserReset == /\ More /\ Ev.op = "reset" /\ Reset /\ Counters /\ Adv
Refused == /\ More /\ Ev.op = "bad" /\ Ev.raised = "ValueError" /\ (UNCHANGED adwinvars \/ PendingReset) /\ Counters /\ Adv
Next == Update \/ UserReset \/ Refused
Spec == Init /\ [][Next]_tvars
==========================================================================
