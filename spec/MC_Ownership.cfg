SPECIFICATION Spec
CONSTANT Buffers = {b1, b2}
CONSTANT AllowAlias = FALSE
CONSTRAINT Bound
INVARIANT NoAlias
INVARIANT NoWrite
INVARIANT Indifferent
CHECK_DEADLOCK FALSE
