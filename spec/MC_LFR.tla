------------------------------- MODULE MC_LFR -------------------------------
(* All (y_true, y_pred) sequences in {0,1}^2 up to Depth, every subset of tracked rates in Subsets,
   subsample 1..2; the simulated bounds are a fixed record (the environment's part is exercised by
   trace validation). *)
EXTENDS LFR, TLC
CONSTANTS Depth
VARIABLES lastCell
vars == <<lfrvars, lastCell>>
AllRates == {"tpr", "tnr", "ppv", "npv"}
Subsets == { {}, {"tpr"}, {"npv"}, {"tpr", "tnr"}, {"ppv", "npv"}, AllRates }
Configs == { [eta |-> "0.6", burn |-> bn, sub |-> sb, rv |-> 4, tracked |-> tr] : bn \in {0, 2}, sb \in {1, 2}, tr \in Subsets }
FixedB == [r \in AllRates |-> [na |-> FALSE, lbw |-> "0.35", ubw |-> "0.65", lbd |-> "0.25", ubd |-> "0.75"]]
FixedBr == [r \in AllRates |-> [lbw |-> <<"0.0", "1.0">>, ubw |-> <<"0.0", "1.0">>, lbd |-> <<"0.0", "1.0">>, ubd |-> <<"0.0", "1.0">>]]
Init == (\E c \in Configs : InitWith(c)) /\ lastCell = <<0, 0>>
Update == \E yt \in {0, 1}, yp \in {0, 1} : Step(yt, yp, FixedB, FixedBr) /\ lastCell' = <<yt, yp>>
Rst == st # "drift" /\ total > 0 /\ UserReset /\ lastCell' = <<-1, -1>>      \* (lastCell <<-1, -1>> marks a step that was not an update)
Next == Update \/ Rst
Spec == Init /\ [][Next]_vars
Bound == TLCGet("level") <= Depth
LC == INSTANCE Lifecycle WITH ltab <- [restart |-> 1, incs |-> {1}, hasrecs |-> TRUE, epochbound |-> TRUE, refrestart |-> FALSE],
                              state <- st, warm <- Tested(since)
LCSpec == LC!Spec
TypeOK == LC!TypeOK
NoEarly == LC!NoEarly
(* the confusion matrix of the epoch: one pseudo-count per cell plus one count per sample *)
CellSum == conf.tn + conf.fn + conf.fp + conf.tp = 4 + since
(* each sample moves exactly its own cell *)
CellMap == [][ lastCell' # <<-1, -1>> => LET c0 == IF st = "drift" THEN Ones ELSE conf IN
               /\ conf'.tp = c0.tp + (IF lastCell' = <<1, 1>> THEN 1 ELSE 0)
               /\ conf'.tn = c0.tn + (IF lastCell' = <<0, 0>> THEN 1 ELSE 0)
               /\ conf'.fn = c0.fn + (IF lastCell' = <<1, 0>> THEN 1 ELSE 0)
               /\ conf'.fp = c0.fp + (IF lastCell' = <<0, 1>> THEN 1 ELSE 0) ]_vars
(* tpr moves only on true positives / false negatives, etc.; an untracked rate's statistic never moves *)
ChangedOnly == [][ lastCell' # <<-1, -1>> => \A r \in AllRates :
                     LET R0 == IF st = "drift" THEN Half ELSE R IN
                     R'[r] # R0[r] => /\ r \in lcfg.tracked
                                      /\ (r = "tpr" => lastCell'[1] = 1) /\ (r = "tnr" => lastCell'[1] = 0)
                                      /\ (r = "ppv" => lastCell'[2] = 1) /\ (r = "npv" => lastCell'[2] = 0) ]_vars
Untracked == \A r \in AllRates \ lcfg.tracked : R[r] = "0.5"
NothingTracked == lcfg.tracked = {} => st = "None"
(* the statistic stays within [0, 1] *)
RRange == \A r \in AllRates : NSign(R[r]) \in {0, 1} /\ ~DefGt(R[r], 1)
=============================================================================
