SPECIFICATION Spec
CONSTANT Depth = 12
CONSTRAINT Bound
INVARIANT TypeOK
INVARIANT NoEarly
INVARIANT RecsRange
INVARIANT RecsFirstWarn
INVARIANT TwinAgree
PROPERTY LCSpec
CHECK_DEADLOCK FALSE
