SPECIFICATION Spec
CONSTANT N = 4
CONSTANT MaxWait = 3
INVARIANT CounterBound
INVARIANT CounterMeaning
INVARIANT VerdictRange
CHECK_DEADLOCK FALSE
