SPECIFICATION Spec
CONSTANT N = 3
CONSTANT MaxWait = 2
INVARIANT CounterBound
INVARIANT CounterMeaning
INVARIANT VerdictRange
CHECK_DEADLOCK FALSE
