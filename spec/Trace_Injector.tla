---------------------------- MODULE Trace_Injector ----------------------------
(* Trace validation for the injectors: one event per call on a real injector object, carrying the
   input matrix, the arguments, and the output (container type, column labels, matrix).  Entries are
   decimal strings; an entry the specification computes arithmetically is compared up to 1e-7. *)
EXTENDS Injector, TraceLib
VARIABLES ncalls
tvars == <<ncalls, tid, l>>
Init == /\ tid \in 1..NTr /\ l = 1 /\ ncalls = 0
Same(a, b) == a = b \/ Close(a, b)
MatEq(x, y) == /\ Len(x) = Len(y)
               /\ \A r \in 1..Len(x) : Len(x[r]) = Len(y[r]) /\ \A c \in 1..Len(x[r]) : IF x[r][c] = y[r][c] THEN TRUE ELSE Close(x[r][c], y[r][c])
Shape == /\ Chk("container type", Ev.tout, Ev.tin)
         /\ Chk("column labels", Ev.colsout, IF Ev.op = "cover" THEN Ev.colsexp ELSE Ev.colsin)
         /\ Chk("input unchanged", Ev.inafter, Ev.in)
Expect(m) == ChkB("output", MatEq(Ev.out, m), <<"row count", Len(Ev.out), Len(m)>>)
(* swapping columns, swapping / joining class labels MOVE values: every entry of the output is an entry of the input or an argument, digit for digit *)
ExpectExact(m) == Chk("output (values are moved, not computed)", Ev.out, m)
Call == /\ More /\ Shape
        /\ CASE Ev.op = "swap"      -> ExpectExact(Swap(Ev.in, Ev.from, Ev.to, Ev.c1, Ev.c2))
             [] Ev.op = "labelswap" -> ExpectExact(LabelSwap(Ev.in, Ev.from, Ev.to, Ev.c1, Ev.k1, Ev.k2))
             [] Ev.op = "labeljoin" -> ExpectExact(LabelJoin(Ev.in, Ev.from, Ev.to, Ev.c1, Ev.k1, Ev.k2, Ev.knew))
             [] Ev.op = "shift"     -> Expect(Shift(Ev.in, Ev.from, Ev.to, Ev.c1, Ev.factor, Ev.alpha))
             [] Ev.op = "brownian"  -> /\ ChkB("frame", Frame(Ev.in, Ev.out, Ev.from, Ev.to, {Ev.c1}), "outside window/column changed")
                                       /\ ChkB("random walk from x0 with steps 1/sqrt(n)", WalkOK(Ev.in, Ev.out, Ev.from, Ev.to, Ev.c1, Ev.x0), Ev.x0)
             [] Ev.op = "resample"  -> /\ ChkB("frame", Frame(Ev.in, Ev.out, Ev.from, Ev.to, 1..NCols(Ev.in)), "outside window changed")
                                       /\ ChkB("window rows come from the window", FromWindow(Ev.in, Ev.out, Ev.from, Ev.to), "foreign row")
                                       /\ ChkB("a class with requested probability 0 is never drawn",
                                               \A r \in 1..Len(Ev.out) : InWin(r, Ev.from, Ev.to) => \A z \in 1..Len(Ev.zero) : Ev.out[r][Ev.c1] # Ev.zero[z], Ev.zero)
             [] Ev.op = "cover"     -> ChkB("cover", CoverOK(Ev.in, Ev.out, Ev.c1, Ev.size, Ev.keys), "groups / sample per group / hidden column")
             [] Ev.op = "freq"      -> \A k \in 1..Len(Ev.counts) :     \* aggregate class frequencies of many resampling calls: 6-sigma binomial bound
                                         ChkB("class frequency", ~DefGt(NAbs(NSub(Ev.counts[k], NMul(Ev.n, Ev.probs[k]))),
                                                                        NAdd(1, NMul(6, NSqrt(NMul(Ev.n, NMul(Ev.probs[k], NSub(1, Ev.probs[k]))))))),
                                              <<k, Ev.counts[k], Ev.n, Ev.probs[k]>>)
        /\ ncalls' = ncalls + 1 /\ Adv
Next == Call
Spec == Init /\ [][Next]_tvars
=============================================================================
