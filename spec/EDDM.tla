------------------------------- MODULE EDDM -------------------------------
(* Executable specification of the Early Drift Detection Method (Baena-Garcia et al. 2006) as
   menelaus documents it; C05, also C01 C02 C16 C17.
   Input: c = 1 iff the prediction is an error.  Only errors move the statistics; a correct
   prediction leaves statistics, state and recommendations as they are. *)
EXTENDS Integers, Sequences, Num
VARIABLES cfg,      \* [nthr, wt, dt]: n_threshold (errors), warning_thresh, drift_thresh
          total, since, st, recs,
          nerr, curr, dmean, dstd, maxnum
eddmvars == <<cfg, total, since, st, recs, nerr, curr, dmean, dstd, maxnum>>
NoRecs == <<-1, -1>>
InitWith(c) == /\ cfg = c /\ total = 0 /\ since = 0 /\ st = "None" /\ recs = NoRecs
               /\ nerr = 0 /\ curr = 0 /\ dmean = 0 /\ dstd = 0 /\ maxnum = 0

Step(c) ==
  LET fresh == st = "drift"
      n0  == IF fresh THEN 0 ELSE nerr
      cu0 == IF fresh THEN 0 ELSE curr
      m0  == IF fresh THEN 0 ELSE dmean
      s0  == IF fresh THEN 0 ELSE dstd
      mx0 == IF fresh THEN 0 ELSE maxnum
      rc0 == IF fresh THEN NoRecs ELSE recs
      st0 == IF fresh THEN "None" ELSE st
  IN /\ since' = (IF fresh THEN 0 ELSE since) + 1
     /\ total' = total + 1
     /\ cfg' = cfg
     /\ IF c = 0
          THEN /\ nerr' = n0 /\ curr' = cu0 /\ dmean' = m0 /\ dstd' = s0 /\ maxnum' = mx0
               /\ st' = st0 /\ recs' = rc0
          ELSE /\ nerr' = n0 + 1
               /\ curr' = since' - 1                       \* position of this error in the epoch
               /\ LET dist == curr' - cu0 IN               \* distance from the previous error (or 0)
                  /\ dmean' = NAdd(m0, NDiv(NSub(dist, m0), nerr'))
                  /\ dstd'  = NSqrt(NDiv(NAdd(s0, NMul(NSub(dist, dmean'), NSub(dist, m0))), nerr'))
               /\ IF nerr' < cfg.nthr
                    THEN maxnum' = mx0 /\ st' = st0 /\ recs' = rc0
                    ELSE LET num == NAdd(dmean', NMul(2, dstd')) IN
                         \E up \in LtSet(mx0, num) :
                           /\ maxnum' = (IF up THEN num ELSE mx0)
                           /\ LET stat == NDiv(num, maxnum') IN     \* 0/0 = NaN: no comparison holds
                              \E d \in LeSet(stat, cfg.dt), w \in LeSet(stat, cfg.wt) :
                                /\ st' = (IF d THEN "drift" ELSE IF w THEN "warning" ELSE "None")
                                /\ recs' = (IF st' = "None" THEN rc0
                                            ELSE IF st' = "warning"
                                              THEN (IF rc0[1] = -1 THEN <<total, rc0[2]>> ELSE rc0)
                                            ELSE <<(IF rc0[1] = -1 THEN total ELSE rc0[1]), total>>)
Reset == /\ since' = 0 /\ st' = "None" /\ recs' = NoRecs /\ nerr' = 0 /\ curr' = 0 /\ dmean' = 0 /\ dstd' = 0 /\ maxnum' = 0
         /\ UNCHANGED <<cfg, total>>
PendingReset == st = "drift" /\ Reset
==========================================================================
