------------------------------ MODULE MC_Product ------------------------------
(* The relation module on its own free behaviour over small projections: sanity of the relations
   (Equal is reflexive, a shifted copy is accepted, a strict run alarming first is refused ...). *)
EXTENDS Product, TLC
CONSTANTS Depth
States == {"None", "warning", "drift"}
P(s, t) == [state |-> s, since |-> t, total |-> t, recs |-> <<-1, -1>>, nums |-> <<"0.5">>, tag |-> "x", thr |-> "1.0"]
Pt(s, t, th) == [P(s, t) EXCEPT !.thr = th]
VARIABLES ok
vars == <<prodvars, ok>>
Init == (\E r \in {"Equal", "EqualShifted", "FirstDriftNotLater", "WarningsSuperset", "EqualWhileAgree"} : InitWith(r)) /\ ok = TRUE
Next == \E sa \in States, sb \in States, fresh \in BOOLEAN :
          /\ ok' = StepOK(P(sa, steps + 1), P(sb, steps + 1), fresh, TRUE, 0)
          /\ Advance(P(sa, steps + 1), P(sb, steps + 1), fresh, 0)
Spec == Init /\ [][Next]_vars
Bound == TLCGet("level") <= Depth
(* meaning of the relations on their own *)
Reflexive == [][ \A s \in States : rel \in {"Equal", "EqualWhileAgree"} =>
                   StepOK(P(s, 1), P(s, 1), FALSE, TRUE, 0) ]_vars
StrictFirstRefused == rel = "FirstDriftNotLater" /\ ~bDrifted =>
                        ~StepOK(P("drift", 1), P("None", 1), FALSE, TRUE, 0) /\ StepOK(P("drift", 1), P("drift", 1), FALSE, TRUE, 0)
WarnLost == rel = "WarningsSuperset" => ~StepOK(P("warning", 1), P("None", 1), FALSE, TRUE, 0) /\ StepOK(P("None", 1), P("warning", 1), FALSE, TRUE, 0)
(* a stricter run whose critical value is below the looser run's is refused while neither has alarmed; thresholds in the right order pass *)
ThresholdOrder == rel = "FirstDriftNotLater" /\ ~bDrifted =>
                    /\ ~StepOK(Pt("None", 1, "0.4"), Pt("None", 1, "0.6"), FALSE, TRUE, 0)
                    /\ StepOK(Pt("None", 1, "0.6"), Pt("None", 1, "0.4"), FALSE, TRUE, 0)
                    /\ StepOK(Pt("None", 1, "None"), Pt("None", 1, "0.4"), FALSE, TRUE, 0)
ProtocolEnforced == rel = "EqualShifted" /\ prevA = "drift" => ~StepOK(P("None", 1), P("None", 1), FALSE, TRUE, 0)
=============================================================================
