-------------------------------- MODULE MC_HDM --------------------------------
(* All histories of set_reference / update / reset over a 4-batch alphabet up to Depth, for the
   detect_batch value DB, both statistics and three divergences; plus the distance axioms over all
   pairs of small batches (ASSUME). *)
EXTENDS HDM, TLC
CONSTANTS Depth, DB
VARIABLES epochBatches,   \* history: number of test batches of the current epoch (the proxy batch not counted)
          lastOp
vars == <<hdmvars, epochBatches, lastOp>>
B1 == <<<<0>>, <<1>>, <<2>>, <<3>>, <<1>>, <<2>>, <<4>>, <<0>>>>
B2 == <<<<1>>, <<1>>, <<2>>, <<3>>, <<0>>, <<2>>, <<3>>, <<4>>>>
B3 == <<<<9>>, <<8>>, <<9>>, <<7>>, <<9>>, <<8>>, <<6>>, <<9>>>>
B4 == <<<<0>>, <<0>>, <<9>>, <<9>>, <<4>>, <<5>>, <<4>>, <<5>>>>
Batches == {B1, B2, B3, B4}
TTab == [i \in 1..80 |-> "2.0"]      \* a flat stand-in for the t table: the model only needs a positive factor
Configs == { [db |-> DB, stat |-> s, sig |-> g, div |-> d, F |-> 1, ttab |-> TTab] :
               s \in {"stdev", "tstat"}, g \in {"0.5"}, d \in {"H", "JS", "TV"} }
Init == (\E c \in Configs : InitWith(c)) /\ epochBatches = 0 /\ lastOp = "init"
SetRef == /\ \E q \in Batches : SetReference(q)
          /\ epochBatches' = 0 /\ lastOp' = "set_reference"
Upd == /\ h.ref # <<>>
       /\ \E q \in Batches : Update(q, "0.05")
       /\ epochBatches' = (IF h.st = "drift" THEN 0 ELSE epochBatches) + 1 /\ lastOp' = "update"
Rst == /\ h.ref # <<>> /\ lastOp = "update" /\ UserReset /\ epochBatches' = 0 /\ lastOp' = "reset"
Next == SetRef \/ Upd \/ Rst
Spec == Init /\ [][Next]_vars
Bound == TLCGet("level") <= Depth

LC == INSTANCE Lifecycle WITH ltab <- [restart |-> (IF DB = 1 THEN 2 ELSE 1), incs |-> (IF DB = 1 THEN {1, 2} ELSE {1}),
                                       hasrecs |-> FALSE, epochbound |-> TRUE, refrestart |-> FALSE],
        total <- h.total, since <- h.since, state <- h.st, recs <- <<-1, -1>>, warm <- (epochBatches >= DB)
LCSpec == LC!Spec
TypeOK == LC!TypeOK /\ h.st # "warning"
(* no drift before the detect_batch-th test batch of the epoch *)
NoDriftBefore == h.st = "drift" => epochBatches >= DB
(* drift exactly when epsilon exceeds the threshold (definite comparisons) *)
DriftRule == lastOp = "update" =>
               /\ (h.st = "drift" => h.beta # "None" /\ ~DefLt(h.ceps, h.beta))
               /\ (h.beta # "None" /\ DefGt(h.ceps, h.beta) => h.st = "drift")
               /\ ((h.beta # "None") <=> (epochBatches >= DB))
(* epsilon is the absolute change of the distance *)
EpsDef == h.ceps # "None" => NSign(h.ceps) \in {0, 1}
DistRange == h.dist # "None" =>
               /\ NSign(h.dist) \in {0, 1}
               /\ hcfg.div = "H" => ~DefGt(h.dist, "1.4142135623730951")
               /\ hcfg.div = "JS" => ~DefGt(h.dist, "0.8325546111576977")
(* the reference grows by the batch when there is no drift and is replaced by it otherwise *)
RefRule == [][ lastOp' = "update" =>
                 \E q \in Batches :
                   IF h'.st = "drift" THEN h'.ref = q
                   ELSE h'.ref = h.ref \o q ]_vars

(* distance axioms over all pairs from the alphabet (and mixed sizes) *)
Small == Batches \cup { SubSeq(B1, 1, 5), SubSeq(B3, 2, 7) }
DistOf(a, b) == FeatDist2(Col(a, 1), Col(b, 1), ISqrt(Len(a)))
AxiomsFor(d) ==
  \A a \in Small, b \in Small :
    LET dab == IF d = "H" THEN HellRT(Hist(Col(a,1), ISqrt(Len(a)), MinOf(Col(a,1), Col(b,1)), MaxOf(Col(a,1), Col(b,1))),
                                      Hist(Col(b,1), ISqrt(Len(a)), MinOf(Col(a,1), Col(b,1)), MaxOf(Col(a,1), Col(b,1))), Len(a), Len(b))
               ELSE JensenShannon(Hist(Col(a,1), ISqrt(Len(a)), MinOf(Col(a,1), Col(b,1)), MaxOf(Col(a,1), Col(b,1))),
                                  Hist(Col(b,1), ISqrt(Len(a)), MinOf(Col(a,1), Col(b,1)), MaxOf(Col(a,1), Col(b,1))))
        dba == IF d = "H" THEN HellRT(Hist(Col(b,1), ISqrt(Len(b)), MinOf(Col(a,1), Col(b,1)), MaxOf(Col(a,1), Col(b,1))),
                                      Hist(Col(a,1), ISqrt(Len(b)), MinOf(Col(a,1), Col(b,1)), MaxOf(Col(a,1), Col(b,1))), Len(b), Len(a))
               ELSE JensenShannon(Hist(Col(b,1), ISqrt(Len(b)), MinOf(Col(a,1), Col(b,1)), MaxOf(Col(a,1), Col(b,1))),
                                  Hist(Col(a,1), ISqrt(Len(b)), MinOf(Col(a,1), Col(b,1)), MaxOf(Col(a,1), Col(b,1))))
    IN /\ NSign(dab) \in {0, 1}
       /\ (a = b => NSign(dab) = 0)
       /\ (Len(a) = Len(b) => Close(dab, dba))
       /\ ~DefGt(dab, IF d = "H" THEN "1.4142135623730951" ELSE "0.8325546111576977")
ASSUME AxiomsFor("H") /\ AxiomsFor("JS")
=============================================================================
