---------------------------- MODULE Trace_Cusum ----------------------------
(* Trace validation for CUSUM.  target / sd_hat are public attributes; the cumulative sums are
   private (logged as "NA" when not readable, then unconstrained - soundness rule 1). *)
EXTENDS Cusum, TraceLib
VARIABLE dirty       \* the caller has called reset() while target / deviation were still unknown (first burn-in interrupted)
tvars == <<cusumvars, dirty, tid, l>>
Init == /\ tid \in 1..NTr /\ l = 1 /\ InitWith(Traces[tid].cfg) /\ dirty = FALSE
Counters == /\ Chk("total", total', Ev.total) /\ Chk("since", since', Ev.since) /\ Chk("state", st', Ev.state)
NumChk(name, a, b) == IF b = "NA" THEN TRUE
                      ELSE IF a = "None" \/ b = "None" THEN Chk(name, a, b)
                      ELSE ChkB(name, Close(a, b), <<a, b>>)
Stats == /\ NumChk("target", target', Ev.target) /\ NumChk("sd", sd', Ev.sd)
         /\ NumChk("sh", sh', Ev.sh) /\ NumChk("sl", sl', Ev.sl)
Update == /\ More /\ Ev.op = "update" /\ Ev.raised = "None"
          /\ IF dirty /\ target = "None" /\ since + 1 = cfg.burn /\ st # "drift"
               THEN StepGiven(Ev.x, Ev.target, Ev.sd) /\ dirty' = FALSE
               ELSE Step(Ev.x) /\ dirty' = dirty
          /\ Counters /\ Stats /\ Adv
ZeroSd == /\ More /\ Ev.op = "update" /\ Ev.raised = "ValueError" /\ Ev.counted
          /\ RejectZeroSd(Ev.x) /\ Counters /\ dirty' = dirty /\ Adv
Refused == /\ More /\ Ev.op = "bad" /\ Ev.raised = "ValueError" /\ ~Ev.counted /\ (UNCHANGED cusumvars \/ PendingReset) /\ Counters /\ dirty' = dirty /\ Adv
(* reset() by the caller: the sums restart, the statistics stay - they change after a DRIFT only (a reset inside the first burn-in: see StepGiven) *)
Rst == /\ More /\ Ev.op = "reset" /\ Reset /\ Counters /\ Stats /\ dirty' = (dirty \/ target = "None") /\ Adv
Next == Update \/ ZeroSd \/ Refused \/ Rst
Spec == Init /\ [][Next]_tvars
==========================================================================
