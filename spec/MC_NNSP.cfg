SPECIFICATION Spec
CONSTANT G = 2
CONSTANT NS = 2
CONSTANT K = 3
INVARIANT MembersExact
INVARIANT DistProps
CHECK_DEADLOCK FALSE
