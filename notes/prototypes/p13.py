"""Abstract kdq-tree (build/fill/KL) + streaming/batch detector control vs the real classes on even-integer grids."""
import math, random, numpy as np, warnings
warnings.filterwarnings("ignore")
from menelaus.partitioners import KDQTreePartitioner
from menelaus.data_drift import KdqTreeStreaming, KdqTreeBatch
def build(rows, ub, mincut, depth=0):
    n=len(rows); m=len(rows[0]); ax=depth%m
    vals=[r[ax] for r in rows]; mn=min(vals); mx=max(vals); mid=mn+(mx-mn)/2
    allv=set(v for r in rows for v in r)
    if n<=ub or len(allv)<=ub or (mid-mn)<=mincut[ax]: return {"leaf":True,"n":{"build":n}}
    return {"leaf":False,"n":{"build":n},"ax":ax,"mid":mid,
            "lo":build([r for r in rows if r[ax]<=mid],ub,mincut,depth+1),"hi":build([r for r in rows if r[ax]>mid],ub,mincut,depth+1)}
def fill(t, rows, tid, reset):
    if tid not in t["n"] or reset: t["n"][tid]=len(rows)
    else: t["n"][tid]+=len(rows)
    if t["leaf"]: return
    fill(t["hi"],[r for r in rows if r[t["ax"]]>t["mid"]],tid,reset); fill(t["lo"],[r for r in rows if r[t["ax"]]<=t["mid"]],tid,reset)
def leaves(t): return [t] if t["leaf"] else leaves(t["lo"])+leaves(t["hi"])
def kl(c1,c2):
    L=len(c1); p=[(c+0.5)/(sum(c1)+L/2) for c in c1]; q=[(c+0.5)/(sum(c2)+L/2) for c in c2]
    return sum(a*math.log(a/b) for a,b in zip(p,q))
def same(t, node, tid):
    if t["leaf"]: return node.axis is None and node.num_samples_in_compared_subtrees.get(tid)==t["n"].get(tid)
    return (node.axis==t["ax"] and node.midpoint_at_axis==t["mid"] and node.num_samples_in_compared_subtrees.get(tid)==t["n"].get(tid)
            and same(t["lo"],node.left,tid) and same(t["hi"],node.right,tid))
random.seed(0); np.random.seed(0); bad=0
for trial in range(400):
    d=random.choice([1,2,3]); n=random.choice([3,8,30,120]); ub=random.choice([1,2,5,20]); prop=random.choice([2e-10,0.1,0.25])
    data=2*np.random.randint(0,random.choice([3,8,40]),size=(n,d))
    p=KDQTreePartitioner(count_ubound=ub,cutpoint_proportion_lbound=prop); p.build(data.astype(float))
    mincut=[int(prop*(data[:,a].max()-data[:,a].min())) for a in range(d)]
    t=build([list(map(int,r)) for r in data],ub,mincut)
    ok=same(t,p.node,"build") and [l["n"]["build"] for l in leaves(t)]==p.leaf_counts("build")
    for k in range(3):
        td=2*np.random.randint(-2,45,size=(random.choice([1,5,50]),d)); rs=random.random()<0.4
        p.fill(td.astype(float),"test",reset=rs); fill(t,[list(map(int,r)) for r in td],"test",rs)
        ok=ok and same(t,p.node,"test") and abs(p.kl_distance("build","test")-kl([l["n"]["build"] for l in leaves(t)],[l["n"]["test"] for l in leaves(t)]))<1e-12
    if not ok: bad+=1; print("TREE MISMATCH",trial,d,n,ub,prop)
print("tree trials bad:",bad)
# streaming detector control, reading _critical_dist
bad=0; drifts=0
for trial in range(40):
    W=random.choice([6,10]); pers=random.choice([0.0,0.3,0.5]); ub=random.choice([1,2])
    det=KdqTreeStreaming(window_size=W,persistence=pers,count_ubound=ub,bootstrap_samples=20,alpha=0.1)
    ref=[];tree=None;run=0;since=0;total=0;state=None;tcount=0
    for i in range(150):
        far=(i//random.choice([7,15]))%2==1
        x=2*np.random.randint(20 if far else 0,(20 if far else 0)+6,size=(1,2))
        det.update(x.astype(float)); row=list(map(int,x[0]))
        if state=="drift": ref=[];tree=None;run=0;since=0;state=None;tcount=0
        total+=1; since+=1
        if tree is None:
            ref.append(row)
            if len(ref)==W:
                mincut=[int(2e-10*(max(r[a] for r in ref)-min(r[a] for r in ref))) for a in range(2)]
                tree=build(ref,ub,mincut); since=0; state=None; run=0; tcount=0; crit=det._critical_dist
        else:
            fill(tree,[row],"test",False); tcount+=1
            if tcount>=W:
                dist=kl([l["n"]["build"] for l in leaves(tree)],[l["n"].get("test",0) for l in leaves(tree)])
                if dist>crit:
                    run+=1   # code semantics: never reset
                    if run>pers*W: state="drift"
        drifts+= det.drift_state=="drift"
        if not (det.drift_state==state and det.samples_since_reset==since and det.total_samples==total):
            bad+=1; print("STREAM MISMATCH",trial,i,det.drift_state,state,det.samples_since_reset,since); break
print("stream trials bad:",bad,"drifts",drifts)
