import itertools, random, numpy as np, pandas as pd, warnings
warnings.filterwarnings("ignore")
from menelaus.injection import FeatureSwapInjector, FeatureShiftInjector, FeatureCoverInjector, LabelSwapInjector, LabelJoinInjector, LabelProbabilityInjector, LabelDirichletInjector, BrownianNoiseInjector
rng=np.random.default_rng(0); random.seed(0); issues={}
def note(k,msg): issues.setdefault(k,set()).add(msg)
def wrap(a,kind): return a.copy() if kind=="nd" else pd.DataFrame(a.copy(),columns=["f0","f1","y"])
def col(c,kind): return c if kind=="nd" else ["f0","f1","y"][c]
def arr(o): return o if isinstance(o,np.ndarray) else o.to_numpy()
for trial in range(300):
    n=random.choice([1,3,6]); a=np.column_stack([rng.integers(0,5,n),rng.integers(0,5,n),rng.integers(0,3,n)]).astype(float)
    fr=random.randint(0,n); to=random.randint(fr,n)
    for kind in ("nd","df"):
        d=wrap(a,kind); before=arr(d).copy()
        def frame(name,out,cols):
            o=arr(out)
            if type(out)!=type(d): note(name,"container type changed")
            if o.shape!=a.shape: note(name,f"shape changed"); return
            if isinstance(out,pd.DataFrame) and list(out.columns)!=list(d.columns): note(name,"labels changed")
            mask=np.ones_like(a,bool); mask[fr:to,cols]=False
            if not np.array_equal(o[mask].astype(float),a[mask]): note(name,"frame violated")
            if not np.array_equal(arr(d),before): note(name,"input modified")
            if out is d: note(name,"returned same object")
        try:
            o=FeatureSwapInjector()(d,fr,to,col(0,kind),col(1,kind)); frame("swap",o,[0,1])
            o2=FeatureSwapInjector()(o,fr,to,col(0,kind),col(1,kind))
            if not np.array_equal(arr(o2).astype(float),a): note("swap","not involution")
            if not np.array_equal(arr(o)[fr:to,0].astype(float),a[fr:to,1]): note("swap","wrong effect")
        except Exception as e: note("swap",f"EXC {type(e).__name__} window {'empty' if fr==to else 'nonempty'}")
        try:
            o=LabelSwapInjector()(d,fr,to,col(2,kind),0,1); frame("lswap",o,[2])
            o2=LabelSwapInjector()(o,fr,to,col(2,kind),0,1)
            if not np.array_equal(arr(o2).astype(float),a): note("lswap","not involution")
        except Exception as e: note("lswap",f"EXC {type(e).__name__}")
        try:
            o=LabelJoinInjector()(d,fr,to,col(2,kind),0,1,7); frame("ljoin",o,[2])
        except Exception as e: note("ljoin",f"EXC {type(e).__name__}")
        try:
            o=FeatureShiftInjector()(d,fr,to,col(0,kind),0.5); frame("shift",o,[0])
            if to>fr and not np.allclose(arr(o)[fr:to,0].astype(float),a[fr:to,0]+0.5*(0.001+a[fr:to,0].mean())): note("shift","wrong amount")
        except Exception as e: note("shift",f"EXC {type(e).__name__} window {'empty' if fr==to else 'nonempty'}")
        try:
            o=BrownianNoiseInjector()(d,fr,to,col(0,kind),2.0,random_state=1); frame("brown",o,[0])
            w=arr(o)[fr:to,0].astype(float)-a[fr:to,0]
            if to>fr and (abs(w[0]-2.0)>1e-12 or not np.allclose(np.abs(np.diff(w)),1/np.sqrt(to-fr))): note("brown","not a walk from x0")
        except Exception as e: note("brown",f"EXC {type(e).__name__} window {'empty' if fr==to else 'nonempty'}")
        try:
            cp={0:0.5}; o=LabelProbabilityInjector()(d,fr,to,col(2,kind),cp); frame("lprob",o,[0,1,2])
            rows={tuple(r) for r in a[fr:to]}
            if any(tuple(r) not in rows for r in arr(o)[fr:to].astype(float)): note("lprob","row not from window")
            if cp!={0:0.5}: note("lprob","caller dict mutated")
        except Exception as e: note("lprob",f"EXC {type(e).__name__} window {'empty' if fr==to else 'nonempty'} classes_in_data={sorted(set(a[:,2]))}"[:90])
for k,v in issues.items(): print(k, sorted(v))
