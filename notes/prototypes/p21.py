"""C15 scan: hand the detector the caller's objects, overwrite them after each call, compare with a private-copy run."""
import copy, random, numpy as np, pandas as pd, warnings
warnings.filterwarnings("ignore")
from menelaus.change_detection import ADWIN, CUSUM, PageHinkley
from menelaus.data_drift import KdqTreeStreaming, KdqTreeBatch, HDDDM, CDBD, NNDVI, PCACD
rng=np.random.default_rng(0)
def containers(a):
    yield "ndarray C", (lambda: np.array(a))
    yield "ndarray F", (lambda: np.asfortranarray(np.array(a)))
    yield "view", (lambda: np.hstack([np.array(a),np.zeros_like(a)])[:, :a.shape[1]])
    yield "DataFrame", (lambda: pd.DataFrame(np.array(a),columns=[f"c{i}" for i in range(a.shape[1])]))
    yield "DataFrame mixed", (lambda: pd.DataFrame(np.array(a),columns=[f"c{i}" for i in range(a.shape[1])]).astype({"c0":"float32"}) )
def garbage(obj):
    if isinstance(obj,pd.DataFrame):
        for c in obj.columns: obj[c]=-9999.0 if False else obj[c]  # no-op path
        obj.iloc[:,:]= -9999.0
    else: obj[...]=-9999.0
def digest(obj): return (obj.to_numpy().tobytes(), tuple(obj.columns)) if isinstance(obj,pd.DataFrame) else obj.tobytes()
def run(make, seq, cname, cf, mutate):
    det=make(); out=[]
    for i,(op,a) in enumerate(seq):
        np.random.seed(100+i)
        obj=[c for n,c in containers(a) if n==cname][0]()
        before=digest(obj)
        getattr(det,op)(obj)
        if digest(obj)!=before: out.append(("CALLEE MODIFIED INPUT",i))
        if mutate:
            try: garbage(obj)
            except Exception as e: pass
        out.append((op,det.drift_state, round(float(getattr(det,"current_distance",0) or 0),9)))
    return out
def stream(d,n,shifts): return [("update", rng.normal(shifts[(i*len(shifts))//n],1,(1,d))) for i in range(n)]
def batches(d,ms,ref=True): return ([("set_reference", rng.normal(0,1,(24,d)))] if ref else [])+[("update", rng.normal(m,1,(24,d))) for m in ms]
cases={
 "ADWIN":(lambda: ADWIN(delta=0.5,new_sample_thresh=4,window_size_thresh=6,subwindow_size_thresh=2), stream(1,80,[0,6,0,6])),
 "CUSUM":(lambda: CUSUM(burn_in=6,threshold=4), stream(1,80,[0,6,0,6])),
 "PageHinkley":(lambda: PageHinkley(burn_in=6,threshold=1), stream(1,80,[5,11,5,11])),
 "KdqTreeStreaming":(lambda: KdqTreeStreaming(window_size=8,bootstrap_samples=20,count_ubound=2,persistence=0.2), stream(2,80,[0,9,0,9])),
 "PCACD":(lambda: PCACD(window_size=20,divergence_metric="intersection"), stream(2,120,[0,6,0])),
 "KdqTreeBatch":(lambda: KdqTreeBatch(bootstrap_samples=20,count_ubound=3), batches(2,[0,5,5,0,0])),
 "HDDDM":(lambda: HDDDM(detect_batch=3,statistic="stdev",significance=0.5), batches(2,[0,0,5,5,5,0,0,0])),
 "HDDDM db1":(lambda: HDDDM(detect_batch=1,subsets=3), batches(2,[0,5,5,0,0])),
 "CDBD":(lambda: CDBD(detect_batch=3,statistic="stdev",significance=0.5), batches(1,[0,0,5,5,5,0,0,0])),
 "NNDVI":(lambda: NNDVI(k_nn=3,sampling_times=20), batches(2,[0,5,5,0,0])),
}
for name,(make,seq) in cases.items():
    res=[]
    for cname,_ in containers(seq[0][1]):
        try:
            a=run(make,seq,cname,None,False); b=run(make,seq,cname,None,True)
            tag = "MODIFIES INPUT" if any(x[0]=="CALLEE MODIFIED INPUT" for x in a) else ("ALIAS (outputs differ)" if a!=b else "ok")
        except Exception as e: tag="EXC "+type(e).__name__+": "+str(e)[:50]
        res.append(f"{cname}: {tag}")
    print(name,"|"," ; ".join(res))
