"""Abstract ADWIN model (win + per-row bucket counts) vs the real class."""
import math, random, numpy as np, warnings
warnings.filterwarnings("ignore")
from menelaus.change_detection import ADWIN
class Model:
    def __init__(s, delta, M, T, wthr, sub, cons):
        s.delta,s.M,s.T,s.wthr,s.sub,s.cons=delta,M,T,wthr,sub,cons
        s.win=[]; s.cnt=[0]; s.total=0; s.since=0; s.state=None; s.recs=(None,None)
    def sizes(s):  # oldest first
        out=[]
        for i in range(len(s.cnt)-1,-1,-1): out += [2**i]*s.cnt[i]
        return out
    def var(s):
        W=len(s.win); m=sum(s.win)/W; return sum((x-m)**2 for x in s.win)/W
    def eps_exceeds(s,n0,t0,n1,t1):
        W=len(s.win); diff=t0/n0 - t1/n1
        m=1/(n0-s.sub+1)+1/(n1-s.sub+1)
        if not s.cons:
            d=math.log(2*math.log(W)/s.delta); eps=math.sqrt(2*m*s.var()*d)+(2/3)*m*d
        else:
            d=math.log(4*math.log(W)/s.delta); eps=math.sqrt(0.5*m*d)
        return abs(diff)>eps, abs(diff)-eps
    def update(s,x):
        if s.state is not None: s.since=0; s.state=None; s.recs=(None,None)
        s.total+=1; s.since+=1
        s.win.append(x); s.cnt[0]+=1
        i=0
        while i<len(s.cnt):
            if s.cnt[i]==s.M+1:
                if i+1==len(s.cnt): s.cnt.append(0)
                s.cnt[i]-=2; s.cnt[i+1]+=1
                if s.cnt[i+1]<=s.M: break
            else: break
            i+=1
        margin=[]
        if s.total % s.T==0 and len(s.win)>s.wthr:
            again=True
            while again:
                again=False
                sz=s.sizes(); n0=0; t0=0.0; W=len(s.win); tot=sum(s.win)
                # index of last bucket of head row
                nb=len(sz); head_last = nb-1 if s.cnt[0]>0 else None
                pos=0
                for bi,b in enumerate(sz):
                    t0+=sum(s.win[pos:pos+b]); pos+=b; n0+=b; n1=W-n0; t1=tot-t0
                    if head_last is not None and bi==head_last: break
                    if n0>=s.sub and n1>=s.sub:
                        ex,mg=s.eps_exceeds(n0,t0,n1,t1); margin.append(abs(mg))
                        if ex:
                            again=True; s.state="drift"
                            # drop oldest bucket
                            drop=sz[0]; s.win=s.win[drop:]
                            top=len(s.cnt)-1; s.cnt[top]-=1
                            while len(s.cnt)>1 and s.cnt[-1]==0: s.cnt.pop()
                            s.recs=(s.total-len(s.win), s.total-1)
                            break
        return min(margin) if margin else None
random.seed(3); bad=0; ndrift=0; nsteps=0; minmargin=1e9
for trial in range(300):
    cfg=dict(delta=random.choice([0.002,0.05,0.5,1.0]), M=random.choice([1,2,3,5]), T=random.choice([1,2,4,8,32]),
             wthr=random.choice([2,5,10]), sub=random.choice([1,2,5]), cons=random.choice([False,True]))
    a=ADWIN(delta=cfg["delta"],max_buckets=cfg["M"],new_sample_thresh=cfg["T"],window_size_thresh=cfg["wthr"],subwindow_size_thresh=cfg["sub"],conservative_bound=cfg["cons"])
    m=Model(**cfg)
    level=0.0
    for t in range(400):
        if random.random()<0.02: level=random.choice([0,5,-5,20,0.5])
        x=level+random.gauss(0,random.choice([0.1,1]))
        a.update(x); mg=m.update(x); nsteps+=1
        if mg is not None: minmargin=min(minmargin,mg)
        ra=tuple(a.retraining_recs); 
        ok = (a.drift_state==m.state and a.total_samples==m.total and a.samples_since_reset==m.since
              and (ra==(None,None))==(m.recs==(None,None)) and (ra==(None,None) or (int(ra[0]),int(ra[1]))==m.recs)
              and abs(a.mean()-sum(m.win)/len(m.win))<1e-9*max(1,abs(a.mean())) and abs(a.variance()-m.var())<1e-7*max(1,m.var()))
        ndrift+= a.drift_state=="drift"
        if not ok:
            bad+=1; print("MISMATCH trial",trial,cfg,"t",t,a.drift_state,m.state,ra,m.recs,a.mean(),sum(m.win)/len(m.win),a.variance(),m.var(),a._window_size,len(m.win)); break
print("steps",nsteps,"drifts",ndrift,"mismatching trials",bad,"min |diff-eps| margin",minmargin)
