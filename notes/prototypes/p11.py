"""Abstract HDM model vs real HDDDM/CDBD on integer data."""
import math, random, numpy as np, pandas as pd, warnings
warnings.filterwarnings("ignore")
import scipy.stats
from menelaus.data_drift import HDDDM, CDBD
def hist(col, bins, mn, mx):
    c=[0]*bins
    for v in col:
        b=((v-mn)*bins)//(mx-mn)
        if b==bins: b=bins-1
        c[b]+=1
    return c
def hell(r,t):
    R=sum(r);T=sum(t); return math.sqrt(sum((math.sqrt(t[b]/T)-math.sqrt(r[b]/R))**2 for b in range(len(r))))
def js(r,t):
    R=sum(r);T=sum(t); p=[x/R for x in r]; q=[x/T for x in t]; m=[(a+b)/2 for a,b in zip(p,q)]
    kl=lambda a,b: sum(x*math.log(x/y) for x,y in zip(a,b) if x>0)
    return math.sqrt(max(0.0,(kl(p,m)+kl(q,m))/2))
class Model:
    def __init__(s, db, stat, sig, div):
        s.db,s.stat,s.sig,s.div=db,stat,sig,div; s.total=0; s.since=0; s.state=None; s.lam=0
        s.distances={}; s.eps_values={}; s.thresholds={}
    def set_reference(s, rows):
        s.ref=[list(r) for r in rows]; s.reset()
    def reset(s):
        s.since=0; s.state=None
        if s.db==1:
            h=len(s.ref)//2; proxy=s.ref[h:]; s.ref=s.ref[:h]
        s.refn=len(s.ref); s.bins=math.isqrt(s.refn); s.eps=[]; s.toteps=0.0
        if s.db==1: s.update(proxy, None)
    def update(s, rows, e0):
        if s.state=="drift": s.reset()
        s.total+=1; s.since+=1; F=len(rows[0]); testn=len(rows)
        fd=[]
        for f in range(F):
            rc=[r[f] for r in s.ref]; tc=[r[f] for r in rows]; mn=min(rc+tc); mx=max(rc+tc)
            fd.append(s.div(hist(rc,s.bins,mn,mx),hist(tc,s.bins,mn,mx)))
        s.dist=sum(fd)/F; s.distances[s.total]=s.dist
        if s.since>=2:
            if s.since==2 and s.db!=3: s.eps.append(e0)
            ce=abs(s.dist-s.prev); s.eps.append(ce); s.eps_values[s.total]=ce
            if (s.since>=2 and s.db!=3) or (s.since>=3 and s.db==3):
                if s.since==3 and s.db!=3: s.toteps-=s.eps[0]; s.eps=s.eps[1:]
                d = 1 if (s.since==2 and s.db!=3) else s.total-s.lam-1
                s.toteps+=s.eps[-2]; hat=s.toteps/d
                sd=math.sqrt(sum((e-hat)**2 for e in s.eps[:-1])/d)
                if s.stat=="tstat": beta=hat+scipy.stats.t.ppf(1-s.sig/2, s.refn+testn-2)*sd/math.sqrt(d)
                else: beta=hat+s.sig*sd
                s.beta=beta; s.thresholds[s.total]=beta
                if ce>beta: s.state="drift"; s.ref=[list(r) for r in rows]; s.lam=s.total
        if s.state!="drift":
            s.prev=s.dist; s.ref=s.ref+[list(r) for r in rows]; s.refn=len(s.ref); s.bins=math.isqrt(s.refn)
random.seed(1); np.random.seed(1); bad=0; drifts=0; steps=0
for trial in range(150):
    db=random.choice([1,2,3]); stat=random.choice(["stdev","tstat"]); sig=random.choice([0.5,1.0,2.0]) if stat=="stdev" else random.choice([0.05,0.2])
    cls,div=(HDDDM,hell) if random.random()<0.6 else (CDBD,js)
    F=1 if cls is CDBD else random.choice([1,2,3])
    det=cls(detect_batch=db, statistic=stat, significance=sig, subsets=4)
    mk=lambda loc: [[int(v) for v in row] for row in np.random.randint(loc, loc+12, size=(random.choice([12,20,30,45]),F))]
    ref=mk(0); det.set_reference(pd.DataFrame(ref))
    m=Model(db,stat,sig,div); m.set_reference(ref)
    loc=0
    for b in range(14):
        if random.random()<0.3: loc=random.choice([0,3,8,20])
        X=mk(loc); det.update(pd.DataFrame(X))
        e0 = det.epsilon[0] if (det.batches_since_reset==2 and db!=3) else None
        m.update(X, e0); steps+=1
        ok = det.drift_state==m.state and det.total_batches==m.total and det.batches_since_reset==m.since and abs(det.current_distance-m.dist)<1e-9
        if ok and m.total in m.thresholds: ok = det.total_batches in det.thresholds and abs(det.thresholds[det.total_batches]-m.thresholds[m.total])<1e-9
        if ok: ok = set(det.thresholds)==set(m.thresholds) and set(det.epsilon_values)==set(m.eps_values)
        drifts+= det.drift_state=="drift"
        if not ok:
            bad+=1; print("MISMATCH",trial,cls.__name__,db,stat,"batch",b,det.drift_state,m.state,det.current_distance,m.dist,det.thresholds.get(det.total_batches),m.thresholds.get(m.total),det.total_batches,m.total,det.batches_since_reset,m.since); break
print("steps",steps,"drifts",drifts,"mismatching trials",bad)
