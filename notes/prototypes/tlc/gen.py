import json, random, sys
from menelaus.concept_drift import DDM
random.seed(1)
NT, WS, DS = 5, 2, 3
traces=[]
for t in range(int(sys.argv[1])):
    d=DDM(n_threshold=NT, warning_scale=WS, drift_scale=DS)
    p=random.choice([0.1,0.3,0.5]); evs=[]
    for i in range(60):
        if i==30: p=random.choice([0.5,0.8,0.2])
        e=int(random.random()<p)
        d.update(1, 1-e)
        evs.append({"err":e,"state":str(d.drift_state),"recs":[ -1 if r is None else r for r in d.retraining_recs],"since":d.samples_since_reset,"total":d.total_samples})
    traces.append(evs)
json.dump({"traces":traces,"nthr":NT,"ws":WS,"ds":DS}, open("/tmp/probe/t4/traces.json","w"))
print(sum(1 for t in traces for e in t if e["state"]=="drift"), "drifts")
