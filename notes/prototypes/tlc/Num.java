import tlc2.value.impl.*;
public class Num {
  static double d(Value v){ if (v instanceof IntValue) return ((IntValue)v).val; return Double.parseDouble(((StringValue)v).val.toString()); }
  static Value s(double x){ return new StringValue(Double.toString(x)); }
  public static Value NAdd(Value a, Value b){ return s(d(a)+d(b)); }
  public static Value NSub(Value a, Value b){ return s(d(a)-d(b)); }
  public static Value NMul(Value a, Value b){ return s(d(a)*d(b)); }
  public static Value NDiv(Value a, Value b){ return s(d(a)/d(b)); }
  public static Value NSqrt(Value a){ return s(Math.sqrt(d(a))); }
  public static Value NInt(Value n){ return s(d(n)); }
  public static Value NCmp(Value a, Value b){
    double x=d(a), y=d(b);
    if (x==y) return IntValue.gen(0); if (Double.isInfinite(x)||Double.isInfinite(y)) return IntValue.gen(x<y?-1:1);
    double tol = 1e-9*Math.max(1.0, Math.max(Math.abs(x),Math.abs(y)));
    if (Math.abs(x-y) <= tol) return IntValue.gen(2);
    return IntValue.gen(x<y?-1:1);
  }
}
