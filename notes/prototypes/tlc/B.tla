---- MODULE B ----
EXTENDS Integers, TLC, Sequences
\* two "traces": tid 1 must pick x=1 at step 2 to survive to the end (len 4); tid 2 dies at step 3 on all branches
Len1 == 4
VARIABLES tid, l, x
Init == tid \in 1..2 /\ l = 1 /\ x = 0 /\ TLCSet(tid, 1)
Next == /\ l <= Len1
        /\ \E c \in {0,1} : x' = c
        /\ IF tid = 1 THEN (l = 2 => x' = 1) /\ (l = 3 => x = 1) ELSE l < 3
        /\ l' = l + 1 /\ tid' = tid
Max(a,b) == IF a > b THEN a ELSE b
Track == TLCSet(tid, Max(TLCGet(tid), l))
Post == /\ PrintT(<<"reached", TLCGet(1), TLCGet(2)>>)
        /\ \A t \in 1..2 : TLCGet(t) = Len1 + 1
====
