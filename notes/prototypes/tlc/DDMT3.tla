---- MODULE DDMT3 ----
EXTENDS Integers, TLC, Sequences, Json, IOUtils, Num
Data == JsonDeserialize("/tmp/probe/t4/traces.json")
Traces == Data.traces
NT == Data.nthr
WS == Data.ws
DS == Data.ds
VARIABLES tid, l, since, total, rate, std, rmin, smin, st, recs
vars == <<tid, l, since, total, rate, std, rmin, smin, st, recs>>
INF == "Infinity"
Init == /\ tid \in 1..Len(Traces) /\ l = 1 /\ since = 0 /\ total = 0 /\ rate = "0.0" /\ std = "0.0"
        /\ rmin = INF /\ smin = INF /\ st = "None" /\ recs = <<-1,-1>>
GE(a,b) == NCmp(a,b) \in {0,1}
Step ==
  /\ l <= Len(Traces[tid])
  /\ LET ev == Traces[tid][l]
         fresh == st = "drift"
         r0 == IF fresh THEN "0.0" ELSE rate
         sd0 == IF fresh THEN "0.0" ELSE std
         rm0 == IF fresh THEN INF ELSE rmin
         sm0 == IF fresh THEN INF ELSE smin
         rc0 == IF fresh THEN <<-1,-1>> ELSE recs
         c == ev.err
     IN /\ since' = (IF fresh THEN 0 ELSE since) + 1
        /\ total' = total + 1
        /\ rate' = NAdd(r0, NDiv(NSub(c, r0), since'))
        /\ std' = NSqrt(NDiv(NAdd(sd0, NMul(NSub(c, rate'), NSub(c, r0))), since'))
        /\ LET tested == since' >= NT
               lhs == NAdd(rate', std')
               newmin == tested /\ NCmp(lhs, NAdd(rm0,sm0)) \in {-1,0}
           IN /\ rmin' = IF newmin THEN rate' ELSE rm0
              /\ smin' = IF newmin THEN std' ELSE sm0
              /\ st' = IF ~tested THEN (IF fresh THEN "None" ELSE st)
                      ELSE IF GE(lhs, NAdd(rmin', NMul(DS, std'))) THEN "drift"
                      ELSE IF GE(lhs, NAdd(rmin', NMul(WS, std'))) THEN "warning" ELSE "None"
              /\ recs' = IF ~tested \/ st' = "None" THEN rc0
                ELSE IF st' = "warning" THEN (IF rc0[1] = -1 THEN <<total, rc0[2]>> ELSE rc0)
                ELSE <<IF rc0[1] = -1 THEN total ELSE rc0[1], total>>
        /\ ev.state = st' /\ ev.recs = recs' /\ ev.since = since' /\ ev.total = total'
  /\ l' = l + 1 /\ tid' = tid
Next == Step
Track == TLCSet(tid, l)  \* highest l reached per trace (workers 1)
Spec == Init /\ [][Next]_vars
Post == \A t \in 1..Len(Traces) : IF TLCGet(t) = Len(Traces[t]) + 1 THEN TRUE ELSE PrintT(<<"REJECT", t, TLCGet(t)>>) /\ FALSE
====
