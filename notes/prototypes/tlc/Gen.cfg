INIT Init
NEXT Next
INVARIANT Emit
INVARIANT Bound
CONSTANTS N = 2 W = 2 D = 3
CHECK_DEADLOCK FALSE
