---- MODULE Gen ----
EXTENDS Integers, Sequences, TLC, Json
CONSTANTS N, W, D
\* ConfirmedElection-like machine: counters per member, votes vector each call
States == {"None","warning","drift"}
VARIABLES cnt, hist
Init == cnt = [i \in 1..N |-> 0] /\ hist = <<>>
Verdict(nd, nw, s) == IF nd >= s THEN "drift" ELSE IF nd + nw >= s THEN "warning" ELSE "None"
Call(v) ==
  LET voter(i) == (v[i] = "drift" /\ cnt[i] = 0) \/ (v[i] # "warning" /\ cnt[i] # 0)
      c1 == [i \in 1..N |-> IF voter(i) THEN cnt[i] + 1 ELSE cnt[i]]
      RECURSIVE CountIf(_,_)
      CountIf(P(_), i) == IF i = 0 THEN 0 ELSE (IF P(i) THEN 1 ELSE 0) + CountIf(P, i-1)
      isw(i) == ~((v[i] = "drift" /\ cnt[i] = 0)) /\ v[i] = "warning"
      nd == CountIf(voter, N)  nw == CountIf(isw, N)
      c2 == [i \in 1..N |-> IF c1[i] > W THEN 0 ELSE c1[i]]
  IN /\ cnt' = c2
     /\ hist' = Append(hist, [votes |-> v, verdict |-> Verdict(nd, nw, 2), counters |-> c2])
Next == Len(hist) < D /\ \E v \in [1..N -> States] : Call(v)
Emit == Len(hist) = D => PrintT(<<"BEH", ToJson(hist)>>)
Bound == \A i \in 1..N : cnt[i] <= W
====
