---- MODULE Num ----
EXTENDS Integers
NAdd(a, b) == CHOOSE x \in STRING : TRUE
NSub(a, b) == CHOOSE x \in STRING : TRUE
NMul(a, b) == CHOOSE x \in STRING : TRUE
NDiv(a, b) == CHOOSE x \in STRING : TRUE
NSqrt(a) == CHOOSE x \in STRING : TRUE
NInt(n) == CHOOSE x \in STRING : TRUE
NCmp(a, b) == CHOOSE x \in {-1,0,1,2} : TRUE \* -1 lt, 1 gt, 0 exact tie, 2 ambiguous
====
