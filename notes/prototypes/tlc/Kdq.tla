---- MODULE Kdq ----
EXTENDS Integers, Sequences, FiniteSets, TLC, Json, SequencesExt, FiniteSetsExt
CONSTANTS G, NP, UB
\* points: sequence of <<x,y>> with even coords in 0..2*(G-1); tree over index sets
Coord == {2*i : i \in 0..G-1}
Pts == Coord \X Coord
MinOf(S) == CHOOSE m \in S : \A y \in S : m <= y
MaxOf(S) == CHOOSE m \in S : \A y \in S : m >= y
RECURSIVE Build(_,_,_)
\* returns a record tree: [leaf |-> TRUE, n |-> k] or [leaf |-> FALSE, n, axis, mid, lo, hi]
Build(data, S, depth) ==
  LET axis == (depth % 2) + 1
      vals == {data[i][axis] : i \in S}
      mn == MinOf(vals)  mx == MaxOf(vals)
      mid == mn + (mx - mn) \div 2      \* exact: even coords => integer midpoint
      allvals == {data[i][1] : i \in S} \cup {data[i][2] : i \in S}
  IN IF Cardinality(S) <= UB \/ Cardinality(allvals) <= UB \/ mid - mn <= 0
     THEN [leaf |-> TRUE, n |-> Cardinality(S)]
     ELSE [leaf |-> FALSE, n |-> Cardinality(S), axis |-> axis - 1, mid |-> mid,
           lo |-> Build(data, {i \in S : data[i][axis] <= mid}, depth+1),
           hi |-> Build(data, {i \in S : data[i][axis] > mid}, depth+1)]
RECURSIVE LeafSum(_)
LeafSum(t) == IF t.leaf THEN t.n ELSE LeafSum(t.lo) + LeafSum(t.hi)
RECURSIVE Conserve(_)
Conserve(t) == t.leaf \/ (t.n = t.lo.n + t.hi.n /\ Conserve(t.lo) /\ Conserve(t.hi) /\ t.n > UB)
VARIABLES data, tree
Init == data = <<>> /\ tree = [leaf |-> TRUE, n |-> 0]
PtSeq == SetToSeq(Pts)
Idx(p) == CHOOSE i \in 1..Len(PtSeq) : PtSeq[i] = p
Next == /\ Len(data) < NP
        /\ \E p \in Pts : (IF data = <<>> THEN TRUE ELSE Idx(p) >= Idx(data[Len(data)])) /\ data' = Append(data, p)
        /\ tree' = Build(data', 1..Len(data'), 0)
Inv == LeafSum(tree) = Len(data) /\ Conserve(tree)
====
