INIT Init
NEXT Next
CONSTRAINT Track
POSTCONDITION Post
CHECK_DEADLOCK FALSE
