INIT Init
NEXT Next
INVARIANT Inv
CONSTANTS G = 4 NP = 5 UB = 1
CHECK_DEADLOCK FALSE
