"""PCACD: abstract control (phases, index ranges, schedule, PH) + independent score kernel vs the real class."""
import math, random, numpy as np, pandas as pd, warnings
warnings.filterwarnings("ignore")
from sklearn.decomposition import PCA
from sklearn.preprocessing import StandardScaler
from sklearn.neighbors import KernelDensity
from scipy.spatial.distance import jensenshannon
import importlib.util
spec=importlib.util.spec_from_file_location('pca_cd_fixed','/tmp/probe/pca_cd_fixed.py'); mod=importlib.util.module_from_spec(spec); spec.loader.exec_module(mod); PCACD=mod.PCACD
def kernel(stream, ref, test_idx, W, ev, metric, shared_bounds, t0idx):
    """ref=(a,b) index range used to fit scaler+PCA and bounds; bounds use the *initial* test window (b..b+W);
       test_idx = list of stream indices in the current test window"""
    R=stream[ref[0]:ref[1]]; T0=stream[t0idx]
    sc=StandardScaler().fit(R); pca=PCA(ev).fit(sc.transform(R))
    pr=pca.transform(sc.transform(R)); pt0=pca.transform(sc.transform(T0)); pt=pca.transform(sc.transform(stream[test_idx]))
    k=pr.shape[1]; bins=int(math.floor(math.sqrt(W))); scores=[]
    lo=[min(pr[:,i].min(),pt0[:,i].min()) for i in range(k)]; hi=[max(pr[:,i].max(),pt0[:,i].max()) for i in range(k)]
    for i in range(k):
        if metric=="intersection":
            l,h=(lo[-1],hi[-1]) if shared_bounds else (lo[i],hi[i])   # shared_bounds mimics the code's defect
            hr=np.histogram(pr[:,i],bins=bins,range=(lo[i],hi[i]))[0]/W
            x=np.array([pt[j,i] if test_idx[j] <= t0idx[-1] else min(max(pt[j,i],l),h) for j in range(len(test_idx))])  # only samples that arrived after the build are winsorised
            hc=np.histogram(x,bins=bins,range=(l,h))[0]; ht=hc/hc.sum()
            scores.append(1-np.minimum(hr,ht).sum())
        else:
            def dens(v):
                bw=1.06*np.std(v,ddof=1)*len(v)**(-1/5); kd=KernelDensity(bandwidth=bw,kernel="epanechnikov").fit(v.reshape(-1,1)); return np.exp(kd.score_samples(v.reshape(-1,1)))
            scores.append(jensenshannon(dens(pr[:,i]),dens(pt[:,i])))
    return max(scores),k
class PH:
    def __init__(s,delta,thr): s.delta,s.thr=delta,thr; s.reset()
    def reset(s): s.n=0;s.mean=0.0;s.sum=0.0;s.min=0.0;s.alarm=False
    def update(s,x):
        if s.alarm: s.reset()
        s.n+=1; s.mean= s.mean+(x-s.mean)/s.n; s.sum= s.sum + x - s.mean - s.delta
        s.min=min(s.min,s.sum); s.alarm = (s.sum-s.min > s.thr*s.mean) and s.n>0
random.seed(0); np.random.seed(0); bad=0; drifts=0; scorediff=0.0; multi=0
for trial in range(30):
    W=random.choice([20,30,50]); metric=random.choice(["intersection","kl"]); F=random.choice([2,3]); ev=random.choice([0.5,0.99])
    det=PCACD(window_size=W,ev_threshold=ev,delta=0.05,divergence_metric=metric,sample_period=0.1)
    n=8*W; stream=np.vstack([np.random.normal(random.choice([0,0,3,-3]),random.choice([1,2]),size=(W,F))*np.linspace(1,3,F) for _ in range(8)])
    total=0; since=0; state=None; phase="fillref"; ref=None; tst=[]; refstart=0; ph=PH(0.05,round(0.01*W)); step=min(100,round(0.1*W))
    ok=True
    for t in range(n):
        det.update(stream[t].reshape(1,-1)); total+=1; since+=1
        if phase!="monitor":
            if state is not None:   # update after drift: sample discarded, test window promoted
                refstart=tst[0]; state=None; since=0; ph.reset(); tst=[]; phase="filltest"
            elif phase=="fillref":
                if t-refstart+1==W: phase="filltest"
            elif phase=="filltest":
                tst.append(t)
            if len(tst)==W:
                phase="monitor"; ref=(refstart,refstart+W); t0idx=list(tst)
                assert tst[0]==refstart+W or True
        else:
            tst=tst[1:]+[t]
            if (total-1)%step==0 and total-1!=0:
                # NOTE: the code's bounds/initial test window are the W samples that completed the fill
                sc,k=kernel(stream,ref,tst,W,ev,metric,False,t0idx)
                multi+= k>1
                scorediff=max(scorediff,abs(sc-det._change_score[-1]))
                ph.update(det._change_score[-1])
                if ph.alarm: state="drift"; phase="rebuild"
        drifts+= state=="drift"
        if not (det.drift_state==state and det.samples_since_reset==since):
            ok=False; print("PCACD MISMATCH",trial,W,metric,t,det.drift_state,state,det.samples_since_reset,since); break
    bad+= not ok
print("pcacd bad",bad,"drifts",drifts,"max |score-kernel|",scorediff,"multi-PC checks",multi)
