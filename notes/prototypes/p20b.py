import random, numpy as np, pandas as pd, warnings
warnings.filterwarnings("ignore")
from menelaus.concept_drift import DDM, EDDM, STEPD, LinearFourRates
from menelaus.data_drift import KdqTreeBatch, NNDVI, HDDDM, CDBD
from menelaus.partitioners import NNSpacePartitioner
rng=np.random.default_rng(0); random.seed(0)
# C16 encodings
encs={"int":lambda c:(1,1 if c else 0),"other ints":lambda c:(7,7 if c else -3),"str":lambda c:("a","a" if c else "b"),"bool":lambda c:(True,True if c else False),
      "float":lambda c:(0.5,0.5 if c else 0.25),"3class":lambda c:(2,2 if c else random.choice([0,1])),"np0d":lambda c:(np.array(1),np.array(1 if c else 0)),
      "np1d":lambda c:(np.array([1]),np.array([1 if c else 0])),"list":lambda c:([1],[1 if c else 0]),"series":lambda c:(pd.Series([1]),pd.Series([1 if c else 0]))}
bad={}
for cls,kw in ((DDM,dict(n_threshold=5)),(EDDM,dict(n_threshold=3)),(STEPD,dict(window_size=5,alpha_drift=0.05,alpha_warning=0.2))):
    for trial in range(30):
        seq=[int(rng.random()<(0.9 if (i//30)%2==0 else 0.3)) for i in range(120)]
        base=None
        for name,f in encs.items():
            d=cls(**kw); out=[]
            try:
                for c in seq:
                    yt,yp=f(c); d.update(yt,yp, X=("junk" if name=="str" else None)); out.append((d.drift_state,tuple(None if r is None else int(r) for r in d.retraining_recs)))
            except Exception as e: out=("EXC",type(e).__name__,str(e)[:60])
            if base is None: base=out
            elif out!=base: bad[(cls.__name__,name)]=out if isinstance(out,tuple) else "trace differs"
print("C16 disagreements:",bad)
# C18 permutations
bad=0; n=0
for trial in range(40):
    sz=random.choice([16,25]); B=[rng.integers(0,12,size=(sz,2)).astype(float)+m for m in [0,0,1,3,6,0]]
    P=[b[rng.permutation(len(b))] for b in B]
    for mk in (lambda: HDDDM(detect_batch=3,statistic="stdev",significance=1.0), lambda: HDDDM(detect_batch=2,subsets=3), lambda: KdqTreeBatch(bootstrap_samples=30,count_ubound=3), lambda: NNDVI(k_nn=3,sampling_times=30)):
        outs=[]
        for data in (B,P):
            d=mk(); np.random.seed(3); d.set_reference(pd.DataFrame(data[0]) if isinstance(d,HDDDM) else data[0]); o=[]
            for i,b in enumerate(data[1:]):
                np.random.seed(10+i); d.update(pd.DataFrame(b) if isinstance(d,HDDDM) else b)
                if isinstance(d,HDDDM): o.append((round(float(d.current_distance),12),d.drift_state))
                elif isinstance(d,KdqTreeBatch): o.append((round(float(d._test_dist),12) if d._test_dist is not None else None, d.drift_state))
                else: o.append(d.drift_state)
            outs.append(o)
        n+=1
        if isinstance(mk(),HDDDM) and mk().detect_batch==2:
            # compare distances only while the (order-dependent, bootstrapped) decisions coincide
            k=0
            while k<len(outs[0]) and outs[0][k][1]==outs[1][k][1]: k+=1
            outs=[[x[0] for x in outs[0][:k+1]],[x[0] for x in outs[1][:k+1]]]
        if outs[0]!=outs[1]: bad+=1; print("C18 differs", type(mk()).__name__, outs[0][:3], outs[1][:3])
print("C18 runs",n,"bad",bad)
