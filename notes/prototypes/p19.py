"""C17 probe: does a stricter threshold ever alarm earlier? (same inputs, same seed schedule)"""
import random, numpy as np, pandas as pd, warnings
warnings.filterwarnings("ignore")
from menelaus.change_detection import ADWIN, CUSUM, PageHinkley
from menelaus.concept_drift import DDM, EDDM, STEPD, LinearFourRates
from menelaus.data_drift import KdqTreeBatch, KdqTreeStreaming, NNDVI, HDDDM
def first_drift(det, calls, seeded=False):
    for i,c in enumerate(calls):
        if seeded: np.random.seed(1000+i)
        c(det)
        if det.drift_state=="drift": return i
    return 10**9
random.seed(0); rng=np.random.default_rng(0)
viol={}
def check(name, mk, loose, strict, calls, seeded=False):
    a=first_drift(mk(loose),calls,seeded); b=first_drift(mk(strict),calls,seeded)
    viol.setdefault(name,[0,0]); viol[name][1]+=1
    if b<a: viol[name][0]+=1; return (a,b)
ex={}
for trial in range(150):
    lv=[random.choice([-5,-1,0,1,5]) for _ in range(4)]
    xs=[float(lv[i//40]+rng.normal()) for i in range(160)]
    uc=[lambda d,x=x:d.update(x) for x in xs]
    r=check("PH(mixed-sign)", lambda t:PageHinkley(threshold=t,burn_in=5,delta=0.01), 0, 2, uc);  ex.setdefault("PH",r) if r else None
    r=check("PH(positive data)", lambda t:PageHinkley(threshold=t,burn_in=5,delta=0.01), 0.5, 2, [lambda d,x=x:d.update(abs(x)+1) for x in xs])
    r=check("CUSUM", lambda t:CUSUM(threshold=t,burn_in=8), 3, 6, uc)
    r=check("ADWIN", lambda t:ADWIN(delta=t,new_sample_thresh=4,window_size_thresh=6,subwindow_size_thresh=2), 0.5, 0.01, uc)
    errs=[int(rng.random()<(0.1 if (i//50)%2==0 else 0.6)) for i in range(200)]
    ec=[lambda d,e=e:d.update(1,1-e) for e in errs]
    check("DDM", lambda t:DDM(n_threshold=10,drift_scale=t), 2.5, 4, ec)
    check("EDDM", lambda t:EDDM(n_threshold=5,drift_thresh=t), 0.9, 0.7, ec)
    check("STEPD", lambda t:STEPD(window_size=10,alpha_drift=t), 0.05, 0.001, ec)
for trial in range(12):
    errs=[int(rng.random()<(0.1 if (i//40)%2==0 else 0.7)) for i in range(90)]
    ys=[(int(rng.random()<0.5)) for _ in errs]
    ec=[lambda d,e=e,y=y:d.update(y, y if not e else 1-y) for e,y in zip(errs,ys)]
    check("LFR", lambda t:LinearFourRates(burn_in=10,num_mc=80,detect_level=t,warning_level=0.2,time_decay_factor=0.8), 0.1, 0.01, ec, seeded=True)
    B=[rng.normal(m,1,(25,2)) for m in [0,0,0.5,1,2,4,0,0]]
    def mkb(cls,**kw):
        def f(t):
            d=cls(**{k:(t if v=="T" else v) for k,v in kw.items()}); np.random.seed(7); d.set_reference(B[0].copy() if cls is not HDDDM else pd.DataFrame(B[0])); return d
        return f
    bc=[lambda d,b=b:d.update(b if not isinstance(d,HDDDM) else pd.DataFrame(b)) for b in B[1:]]
    check("KdqBatch", mkb(KdqTreeBatch,alpha="T",bootstrap_samples=60,count_ubound=4), 0.2, 0.01, bc, seeded=True)
    check("NNDVI", mkb(NNDVI,alpha="T",k_nn=3,sampling_times=60), 0.2, 0.01, bc, seeded=True)
    check("HDDDM tstat", mkb(HDDDM,detect_batch=3,statistic="tstat",significance="T"), 0.2, 0.01, bc, seeded=True)
    check("HDDDM stdev", mkb(HDDDM,detect_batch=3,statistic="stdev",significance="T"), 0.5, 2.0, bc, seeded=True)
for k,v in viol.items(): print(k, "violations",v[0],"of",v[1])
print("PH example (first drift loose, strict):",ex.get("PH"))
