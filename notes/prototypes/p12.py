"""Abstract EDDM and STEPD models vs the real classes (all binary sequences up to n, plus random long ones)."""
import math, random, itertools, numpy as np, warnings
warnings.filterwarnings("ignore")
from scipy.stats import norm
from menelaus.concept_drift import EDDM, STEPD
class MEDDM:
    def __init__(s,nt,wt,dt): s.nt,s.wt,s.dt=nt,wt,dt; s.total=0; s.state=None; s.reset()
    def reset(s): s.since=0; s.state=None; s.ne=0; s.cur=0; s.mean=0.0; s.std=0.0; s.maxn=0.0; s.recs=[None,None]
    def update(s,err):
        if s.state=="drift": s.reset()
        s.total+=1; s.since+=1
        if err:
            s.ne+=1; last=s.cur; s.cur=s.since-1; d=s.cur-last
            pm=s.mean; s.mean=s.mean+(d-s.mean)/s.ne
            s.std=math.sqrt((s.std+(d-s.mean)*(d-pm))/s.ne)
            if s.ne<s.nt: return
            num=s.mean+2*s.std
            if s.maxn<num: s.maxn=num
            if s.maxn==0: s.state=None
            else:
                stat=num/s.maxn
                s.state="drift" if stat<=s.dt else ("warning" if stat<=s.wt else None)
            if s.state=="warning" and s.recs[0] is None: s.recs[0]=s.total-1
            if s.state=="drift":
                s.recs[1]=s.total-1
                if s.recs[0] is None: s.recs[0]=s.total-1
class MSTEPD:
    def __init__(s,w,aw,ad): s.w=w; s.zw=norm.ppf(1-aw); s.zd=norm.ppf(1-ad); s.total=0; s.state=None; s.reset()
    def reset(s): s.since=0; s.state=None; s.win=[]; s.r=0; s.recs=[None,None]
    def update(s,ok):
        if s.state=="drift": s.reset()
        s.total+=1; s.since+=1; s.win.append(ok)
        if len(s.win)>s.w: s.r+=s.win.pop(0)
        if s.since>=2*s.w:
            sw=sum(s.win); no=s.since-s.w; nr=s.w
            recent=sw/nr; past=s.r/no; p=(s.r+sw)/s.since
            if p in (0,1) : st=None
            else:
                stat=(abs(past-recent)-0.5*(1/no+1/nr))/math.sqrt(p*(1-p)*(1/no+1/nr))
                dec=past>recent
                st="drift" if dec and stat>s.zd else ("warning" if dec and stat>s.zw else None)
            s.state=st
            if st is None: s.recs=[None,None]
            else:
                if s.recs[0] is None: s.recs=[s.total-1,s.total-1]
                else: s.recs[1]+=1
def cmp(real, model, seq, kind):
    for i,b in enumerate(seq):
        if kind=="eddm": real.update(1,1-b); model.update(b)
        else: real.update(1,b); model.update(b)
        rr=[None if x is None else int(x) for x in list(real.retraining_recs)]
        if not (real.drift_state==model.state and real.total_samples==model.total and real.samples_since_reset==model.since and rr==model.recs):
            return (i,real.drift_state,model.state,rr,model.recs)
    return None
bad=0;n=0;dr=0
for L in (10,):
  for seq in itertools.product([0,1],repeat=L):
    for nt in (1,2,3):
        x=cmp(EDDM(n_threshold=nt,warning_thresh=0.95,drift_thresh=0.9),MEDDM(nt,0.95,0.9),seq,"eddm"); n+=1
        if x: bad+=1; print("EDDM",nt,seq,x)
    for w in (1,2,3):
        x=cmp(STEPD(window_size=w,alpha_warning=0.3,alpha_drift=0.1),MSTEPD(w,0.3,0.1),seq,"stepd"); n+=1
        if x: bad+=1; print("STEPD",w,seq,x)
    if bad>5: break
random.seed(0)
for t in range(200):
    p=0.1; seq=[]
    for i in range(600):
        if random.random()<0.01: p=random.choice([0.05,0.2,0.5,0.8])
        seq.append(int(random.random()<p))
    x=cmp(EDDM(),MEDDM(30,0.95,0.9),seq,"eddm"); n+=1; bad+= x is not None
    if x: print("EDDM long",x)
    x=cmp(STEPD(),MSTEPD(30,0.05,0.003),[1-b for b in seq],"stepd"); n+=1; bad+= x is not None
    if x: print("STEPD long",x)
print("runs",n,"bad",bad)
