"""Validation rule model (property C14) vs real detectors: classify every disagreement."""
import itertools, numpy as np, pandas as pd, warnings, collections
warnings.filterwarnings("ignore")
from menelaus.data_drift import KdqTreeStreaming, KdqTreeBatch, NNDVI
def mk(container, rows, width, names):
    a=np.arange(rows*width,dtype=float).reshape(rows,width)
    if container=="nd": return a
    if container=="list": return a.tolist()
    if container=="df": return pd.DataFrame(a,columns=list(names[:width]))
inputs=[(c,r,w,n) for c in ("nd","list","df") for r in (1,2) for w in (1,2,3) for n in (("a","b","c"),("x","y","z")) if c=="df" or n==("a","b","c")]
def model_step(mem, kind, inp):
    c,r,w,n=inp; cols,dim=mem
    rows_ok = (r==1) if kind=="stream" else (r>=2)
    names=tuple(n[:w]) if c=="df" else None
    ok = rows_ok and (dim is None or w==dim) and (cols is None or names is None or names==cols)
    if ok: return (cols if cols is not None else names, w), True
    return mem, False
dev=collections.Counter(); total=0
for kind,factory in (("stream",lambda: KdqTreeStreaming(window_size=50)),("batch",lambda: (lambda d:(d.set_reference(np.zeros((3,0))) if False else d))(NNDVI(k_nn=1,sampling_times=2)))):
    for seq in itertools.product(inputs,repeat=3):
        det=factory(); mem=(None,None); pre=[]
        for inp in seq:
            mem2,acc=model_step(mem,kind,inp)
            cnt0 = det.total_samples if kind=="stream" else det.total_batches
            try:
                if kind=="stream": det.update(mk(*inp))
                else: det.set_reference(mk(*inp))   # validation only path for batch (set_reference validates, no counters)
                real=True
            except ValueError: real="ValueError"
            except Exception as e: real=type(e).__name__
            total+=1
            if (real is True)!=acc:
                # classify
                c,r,w,n=inp
                if acc and real is not True:
                    key=("model accepts, code raises %s"%real, "after rejected call fixed dim" if any(p for p in pre if not p[1]) else "other")
                else:
                    key=("model rejects, code accepts", "df after non-df" if c=="df" and mem[0] is None and mem[1] is not None else ("names differ" if c=="df" else "other"))
                dev[(kind,)+key]+=1
                break   # state diverged; stop this sequence
            pre.append((inp,acc)); mem=mem2
print("calls compared",total)
for k,v in sorted(dev.items()): print(v,k)
