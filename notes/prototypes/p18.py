"""MD3 reference statistics via folds; CUSUM (intended semantics) and PH models vs real."""
import math, random, numpy as np, pandas as pd, warnings
warnings.filterwarnings("ignore")
from sklearn.base import BaseEstimator, ClassifierMixin
from sklearn.model_selection import KFold
from menelaus.concept_drift import MD3
from menelaus.change_detection import CUSUM, PageHinkley
class Thr(BaseEstimator, ClassifierMixin):
    def __init__(self, thr=0.0): self.thr=thr
    def fit(self, X, y): self.classes_=np.array([0,1]); return self
    def predict(self, X): return (np.asarray(X)[:,0] > self.thr).astype(int)
def margin(det, sample, clf): return 1 if abs(sample[0]-clf.thr) <= 1 else 0
random.seed(0); bad=0
for trial in range(100):
    n=random.choice([4,6,9,12]); k=random.choice([2,3])
    xs=[random.choice([-3,-2,-0.5,0.5,2,3]) for _ in range(n)]; ys=[int(x>0) if random.random()<0.8 else 1-int(x>0) for x in xs]
    df=pd.DataFrame({"x":xs,"z":[0.0]*n,"y":ys})
    d=MD3(clf=Thr(0.0),margin_calculation_function=margin,k=k); d.set_reference(df,target_name="y")
    mds=[];accs=[]
    for tr,te in KFold(n_splits=k,random_state=42,shuffle=True).split(np.zeros(n)):
        mds.append(sum(1 if abs(xs[i])<=1 else 0 for i in te)/len(te)); accs.append(sum(1 for i in te if int(xs[i]>0)==ys[i])/len(te))
    mean=lambda v: sum(v)/len(v); std=lambda v: math.sqrt(sum((a-mean(v))**2 for a in v)/len(v))
    r=d.reference_distribution
    ok= r["len"]==n and abs(r["md"]-mean(mds))<1e-12 and abs(r["md_std"]-std(mds))<1e-12 and abs(r["acc"]-mean(accs))<1e-12 and abs(r["acc_std"]-std(accs))<1e-12
    bad+= not ok
print("md3 ref stats bad",bad)
# PH model vs real (all directions), with to_dataframe rows
bad=0
for trial in range(100):
    dirn=random.choice(["positive","negative"]); burn=random.choice([0,1,5]); thr=random.choice([0,1,3]); delta=random.choice([0.01,0.5])
    p=PageHinkley(delta=delta,threshold=thr,burn_in=burn,direction=dirn)
    n=0;mean=0.0;sm=0.0;mn=0.0;mx=0.0;state=None;total=0
    lvl=0
    for t in range(200):
        if random.random()<0.05: lvl=random.choice([0,3,-3,8])
        x=lvl+random.gauss(0,1)
        p.update(x)
        if state=="drift": n=0;mean=0.0;sm=0.0;mn=0.0;mx=0.0;state=None
        total+=1;n+=1; mean=mean+(x-mean)/n; sm=sm+x-mean-delta
        if sm<mn: mn=sm
        if sm>mx: mx=sm
        diff= sm-mn if dirn=="positive" else mx-sm
        if diff>thr*mean and n>burn: state="drift"
        if not (p.drift_state==state and p.samples_since_reset==n and float(np.asarray(p.to_dataframe()["page_hinkley_values"].iloc[-1]).item())==sm): bad+=1; break
print("ph bad",bad)
# CUSUM intended semantics (current observation) vs real: expect agreement only up to the first drift
agree_first=0; diverge_after=0
for trial in range(100):
    burn=random.choice([3,5,10]); thr=random.choice([3,5]); dirn=random.choice([None,"positive","negative"]); known=random.random()<0.3
    c=CUSUM(target=0.0 if known else None, sd_hat=1.0 if known else None, burn_in=burn, delta=0.005, threshold=thr, direction=dirn)
    stream=[];sh=0.0;sl=0.0;since=0;state=None;target=0.0 if known else None;sd=1.0 if known else None; lvl=0; first=True; ok_first=True; div=False
    for t in range(150):
        if random.random()<0.04: lvl=random.choice([0,4,-4])
        x=lvl+random.gauss(0,1); c.update(x)
        if state=="drift":
            last=stream[-burn:]; target=sum(last)/len(last); sd=math.sqrt(sum((v-target)**2 for v in last)/len(last)); sh=sl=0.0; since=0; state=None
        since+=1; stream.append(x)
        if target is None and since==burn:
            target=sum(stream)/len(stream); sd=math.sqrt(sum((v-target)**2 for v in stream)/len(stream))
        if target is not None:
            z=(x-target)/sd; sh=max(0,sh+z-0.005); sl=max(0,sl-0.005-z)
        if since>burn:
            up=sh>thr; lo=sl>thr
            if (dirn is None and (up or lo)) or (dirn=="positive" and up) or (dirn=="negative" and lo): state="drift"
        same = c.drift_state==state
        if first and not same: ok_first=False
        if state=="drift" or c.drift_state=="drift": 
            if first: first=False
        if not first and not same: div=True
        if not same: break
    agree_first+=ok_first; diverge_after+=div
print("cusum: agrees through first drift in",agree_first,"of 100; diverges in a later epoch in",diverge_after)
