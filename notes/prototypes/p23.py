"""C02 probe on the patched scratch copy: running detector vs fresh twin per epoch (same seed schedule)."""
import random, numpy as np, pandas as pd, warnings, math
warnings.filterwarnings("ignore")
import menelaus; print(menelaus.__file__)
from menelaus.change_detection import CUSUM, PageHinkley
from menelaus.concept_drift import DDM, EDDM, STEPD
from menelaus.data_drift import KdqTreeStreaming, KdqTreeBatch, HDDDM, CDBD, NNDVI
rng=np.random.default_rng(0); random.seed(0)
def recs(d):
    r=getattr(d,"retraining_recs",None)
    return None if r is None else tuple(None if x is None else int(x) for x in r)
def stream_case(name, mk, feed, inputs, carry=None):
    """mk(carry)->detector; feed(det,x)."""
    main=mk(None); twin=mk(None); off=0; bad=None; epochs=0; hist=[]
    for i,x in enumerate(inputs):
        if main.drift_state=="drift":
            c=carry(hist) if carry else None
            twin=mk(c); off=i; epochs+=1
        np.random.seed(500+i); feed(main,x); hist.append(x)
        np.random.seed(500+i); feed(twin,x)
        rm,rt=recs(main),recs(twin)
        rt=None if rt is None else tuple(None if v is None else v+off for v in rt)
        if main.drift_state!=twin.drift_state or rm!=rt or main.samples_since_reset!=twin.samples_since_reset:
            bad=(i,main.drift_state,twin.drift_state,rm,rt,main.samples_since_reset,twin.samples_since_reset); break
    return name,epochs,bad
res=[]
for trial in range(20):
    lv=[random.choice([0,5,-5,10]) for _ in range(6)]
    xs=[float(lv[i//50]+rng.normal()) for i in range(300)]
    burn=random.choice([5,10])
    res.append(stream_case("PH", lambda c:PageHinkley(burn_in=burn,threshold=1,delta=0.01), lambda d,x:d.update(x+20), xs))
    res.append(stream_case("CUSUM", lambda c:CUSUM(burn_in=burn,threshold=4) if c is None else CUSUM(target=c[0],sd_hat=c[1],burn_in=burn,threshold=4),
                           lambda d,x:d.update(x), xs, carry=lambda h:(float(np.mean(h[-burn:])),float(np.std(h[-burn:])))))
    errs=[int(rng.random()<(0.1 if (i//60)%2==0 else 0.7)) for i in range(300)]
    res.append(stream_case("DDM", lambda c:DDM(n_threshold=8), lambda d,e:d.update(1,1-e), errs))
    res.append(stream_case("EDDM", lambda c:EDDM(n_threshold=4), lambda d,e:d.update(1,1-e), errs))
    res.append(stream_case("STEPD", lambda c:STEPD(window_size=8), lambda d,e:d.update(1,1-e), errs))
    pts=[2.0*rng.integers(0,6,size=(1,2))+ (30 if (i//45)%2 else 0) for i in range(270)]
    res.append(stream_case("KdqS", lambda c:KdqTreeStreaming(window_size=10,persistence=0.2,bootstrap_samples=20,count_ubound=2), lambda d,x:d.update(x), pts))
def batch_case(name, mk, B, asdf=False, setref_at=None):
    wrap=(lambda b: pd.DataFrame(b)) if asdf else (lambda b:b)
    main=mk(); np.random.seed(1); main.set_reference(wrap(B[0])); twin=mk(); np.random.seed(1); twin.set_reference(wrap(B[0])); off=0; epochs=0; last=None
    for i,b in enumerate(B[1:]):
        if main.drift_state=="drift":
            twin=mk(); np.random.seed(900+i); 
            # epoch start: the running detector resets inside update under seed 500+i; the twin's set_reference must see the same draws
            np.random.seed(500+i); twin.set_reference(wrap(last)); off=main.total_batches - twin.total_batches; epochs+=1
            np.random.seed(500+i); main.update(wrap(b)); 
            st=np.random.get_state(); 
            # twin's update must continue the same RNG stream position as main had after its internal reset: re-run with same seed minus the reset draws is not possible in general -> compare only deterministic configs
            np.random.seed(500+i); twin.update(wrap(b))
        else:
            if setref_at is not None and i==setref_at:
                np.random.seed(77); main.set_reference(wrap(b)); twin=mk(); np.random.seed(77); twin.set_reference(wrap(b)); off=main.total_batches-twin.total_batches; epochs+=1; last=b; continue
            np.random.seed(500+i); main.update(wrap(b)); np.random.seed(500+i); twin.update(wrap(b))
        last=b
        dm=getattr(main,"current_distance",None); dt=getattr(twin,"current_distance",None)
        tm=getattr(main,"thresholds",{}).get(main.total_batches); tt=getattr(twin,"thresholds",{}).get(twin.total_batches)
        if main.drift_state!=twin.drift_state or main.batches_since_reset!=twin.batches_since_reset or (dm is not None and abs(dm-dt)>1e-12) or ((tm is None)!=(tt is None)) or (tm is not None and abs(tm-tt)>1e-12):
            return name,epochs,(i,main.drift_state,twin.drift_state,dm,dt,tm,tt,main.batches_since_reset,twin.batches_since_reset)
    return name,epochs,None
for trial in range(15):
    B=[2.0*rng.integers(0,8,size=(24,2))+m for m in [0,0,0,6,6,6,0,0,12,12,12,0,0]]
    res.append(batch_case("HDDDM3", lambda:HDDDM(detect_batch=3,statistic="stdev",significance=1.0), B, True))
    res.append(batch_case("HDDDM3 setref", lambda:HDDDM(detect_batch=3,statistic="tstat",significance=0.2), B, True, setref_at=5))
    res.append(batch_case("CDBD3", lambda:CDBD(detect_batch=3,statistic="stdev",significance=1.0), [b[:,:1] for b in B], True))
    res.append(batch_case("KdqB", lambda:KdqTreeBatch(bootstrap_samples=20,count_ubound=3), B))
    res.append(batch_case("KdqB setref", lambda:KdqTreeBatch(bootstrap_samples=20,count_ubound=3), B, False, setref_at=4))
    res.append(batch_case("NNDVI", lambda:NNDVI(k_nn=3,sampling_times=20), B))
import collections
agg=collections.defaultdict(lambda:[0,0,0,None])
for n,e,b in res:
    agg[n][0]+=1; agg[n][1]+=e; agg[n][2]+= b is not None
    if b is not None and agg[n][3] is None: agg[n][3]=b
for n,v in agg.items(): print(n,"runs",v[0],"epochs",v[1],"mismatch runs",v[2],v[3] if v[3] else "")
