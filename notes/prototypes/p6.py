import numpy as np, warnings
warnings.filterwarnings("ignore")
from menelaus.data_drift import KdqTreeStreaming
np.random.seed(5)
W=20
k=KdqTreeStreaming(window_size=W, persistence=0.5, count_ubound=3, bootstrap_samples=100, alpha=0.05)
rng=np.random.default_rng(1)
for r in rng.normal(0,1,(W,2)): k.update(r.reshape(1,-1))
log=[]
def feed(x):
    k.update(x.reshape(1,-1))
    above = k._test_dist is not None and k._critical_dist is not None and k._test_dist>k._critical_dist
    log.append((k.total_samples,bool(above),k._drift_counter,k.drift_state))
for r in rng.normal(0,1,(W,2)): feed(r)
phase=0
for it in range(2000):
    if k.drift_state=="drift": break
    above=log[-1][1]
    # push above with far points until counter reaches 6 in this run, then pull below with near points
    run=0
    j=len(log)-1
    while j>=0 and log[j][1]: run+=1; j-=1
    if run<2 and phase==0: feed(rng.normal(6,0.3,2))
    else:
        phase=1
        feed(rng.normal(0,1,2))
        if not log[-1][1] : phase=0
runs=[];cur=0
for t,a,c,s in log:
    if a: cur+=1
    else:
        if cur: runs.append(cur)
        cur=0
if cur: runs.append(cur)
print("crit",k._critical_dist,"final",log[-1],"above-runs",runs, "max run", max(runs) if runs else 0, "needed >",0.5*W)
