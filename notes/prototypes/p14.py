"""NNSP / NNDVI and LFR abstract models vs the real classes."""
import math, random, numpy as np, warnings
from fractions import Fraction as Fr
warnings.filterwarnings("ignore")
from menelaus.partitioners import NNSpacePartitioner
from menelaus.data_drift import NNDVI
from menelaus.concept_drift import LinearFourRates
random.seed(0); np.random.seed(0)
bad=0; ties=0
for trial in range(500):
    n1=random.choice([2,3,5,8]); n2=n1   # equal sizes (unequal is the known defect)
    s1=np.random.randint(0,5,size=(n1,2)); s2=np.random.randint(0,5,size=(n2,2)); k=random.choice([1,2,3])
    D=sorted(set(map(tuple,s1))|set(map(tuple,s2)))
    if len(D)<k: continue
    p=NNSpacePartitioner(k); p.build(s1.astype(float),s2.astype(float))
    ok = [tuple(map(int,r)) for r in p.D]==D
    v1=[1.0 if d in set(map(tuple,s1)) else 0.0 for d in D]; v2=[1.0 if d in set(map(tuple,s2)) else 0.0 for d in D]
    ok = ok and list(p.v1)==v1 and list(p.v2)==v2
    A=p.adjacency_matrix
    for i in range(len(D)):
        ok = ok and A[i][i]==1 and A[i].sum()==k
        d2=[(D[i][0]-D[j][0])**2+(D[i][1]-D[j][1])**2 for j in range(len(D))]
        inn=[d2[j] for j in range(len(D)) if A[i][j]==1]; out=[d2[j] for j in range(len(D)) if A[i][j]==0]
        ok = ok and (not out or max(inn)<=min(out))
        if out and max(inn)==min(out): ties+=1
    ok = ok and np.array_equal(p.nnps_matrix, A)
    a=[sum(Fr(int(v1[i]))*Fr(int(A[i][j])) for i in range(len(D))) for j in range(len(D))]
    b=[sum(Fr(int(v2[i]))*Fr(int(A[i][j])) for i in range(len(D))) for j in range(len(D))]
    dist=sum(abs(x-y)/(x+y) for x,y in zip(a,b))/len(D)
    ok = ok and abs(float(dist)-NNSpacePartitioner.compute_nnps_distance(p.nnps_matrix,p.v1,p.v2))<1e-12 and 0<=dist<=1
    if not ok: bad+=1; print("NNSP MISMATCH",trial)
print("nnsp bad",bad,"rows with distance ties",ties)
# NNDVI decision with wrapped threshold helper
rec=[]
orig=NNDVI._compute_drift_threshold
NNDVI._compute_drift_threshold=staticmethod(lambda *a,**k:(rec.append(orig(*a,**k)) or rec[-1]))
bad=0;dr=0
for trial in range(40):
    det=NNDVI(k_nn=3,sampling_times=30,alpha=0.05); ref=np.random.randint(0,6,size=(12,2)).astype(float); det.set_reference(ref); cur=ref
    for b in range(8):
        loc=random.choice([0,0,4,10]); X=np.random.randint(loc,loc+6,size=(12,2)).astype(float)
        was=det.drift_state; det.update(X)
        p=NNSpacePartitioner(3); p.build(cur,X); d=NNSpacePartitioner.compute_nnps_distance(p.nnps_matrix,p.v1,p.v2)
        exp = "drift" if d>rec[-1] else (None)
        if exp=="drift": cur=X
        dr+= exp=="drift"
        if det.drift_state!=exp or not np.array_equal(det.reference_batch,cur): bad+=1; print("NNDVI MISMATCH",trial,b,det.drift_state,exp); break
print("nndvi bad",bad,"drifts",dr)
# LFR: cells, rates, statistic, schedule, decision against bounds read from _bounds
bad=0;dr=0;wr=0
for trial in range(25):
    eta=random.choice([0.6,0.9]); burn=random.choice([3,8]); sub=random.choice([1,2,3]); tracked=random.sample(["tpr","tnr","ppv","npv"],random.choice([1,2,4]))
    wl=random.choice([0.05,0.2]); dl=random.choice([0.01,0.05])
    det=LinearFourRates(time_decay_factor=eta,warning_level=wl,detect_level=dl,burn_in=burn,num_mc=60,subsample=sub,rates_tracked=tracked,round_val=4)
    conf=[[1,1],[1,1]]; R={r:0.5 for r in ["tpr","tnr","ppv","npv"]}; since=0; total=0; state=None; recs=[None,None]
    def rates(c):
        tn,fn,fp,tp=c[0][0],c[0][1],c[1][0],c[1][1]
        return {"tpr":(tp,tp+fn),"tnr":(tn,tn+fp),"ppv":(tp,fp+tp),"npv":(tn,tn+fn)}
    acc=0.9
    for i in range(60):
        if i==30: acc=random.choice([0.2,0.5,0.9])
        yt=int(random.random()<0.5); yp=yt if random.random()<acc else 1-yt
        det.update(yt,yp)
        if state=="drift": conf=[[1,1],[1,1]]; R={r:0.5 for r in R}; since=0; state=None; recs=[None,None]
        total+=1; since+=1
        old=rates(conf); conf[yp][yt]+=1; new=rates(conf)
        warn=False; alarm=False
        for r in tracked:
            if old[r][0]*new[r][1]!=new[r][0]*old[r][1]: R[r]=eta*R[r]+(1-eta)*(yt==yp)
            if since>burn and since%sub==0:
                p=new[r][0]/new[r][1]; b=det._bounds[round(p,4)][new[r][1]]
                warn |= (R[r]<b["lb_warn"]) or (R[r]>b["ub_warn"]); alarm |= (R[r]<b["lb_detect"]) or (R[r]>b["ub_detect"])
        state="drift" if alarm else ("warning" if warn else None)
        if state=="warning" and recs[0] is None: recs[0]=total-1
        if state=="drift":
            recs[1]=total-1
            if recs[0] is None: recs[0]=total-1
        dr+=state=="drift"; wr+=state=="warning"
        if not (det.drift_state==state and list(det.retraining_recs)==recs and det.samples_since_reset==since and np.array_equal(det._confusion,np.array(conf))):
            bad+=1; print("LFR MISMATCH",trial,i,det.drift_state,state,det.retraining_recs,recs); break
print("lfr bad",bad,"drifts",dr,"warnings",wr)
