import json, re
from menelaus.ensemble import ConfirmedElection
class Stub:
    def __init__(s): s.drift_state=None
ok=bad=0
for line in open('/tmp/probe/t6/out.txt'):
    if not line.startswith('<<"BEH"'): continue
    js=line[line.index('"[')+1: line.rindex(']"')+1].encode().decode('unicode_escape')
    beh=json.loads(js)
    e=ConfirmedElection(sensitivity=2, wait_time=2); dets=[Stub(),Stub()]
    for st in beh:
        for d,v in zip(dets,st["votes"]): d.drift_state=None if v=="None" else v
        r=e(dets)
        if (r or "None")!=st["verdict"] or list(e.wait_period_counters)!=st["counters"]:
            bad+=1; print("MISMATCH",beh,r,e.wait_period_counters); break
    else: ok+=1
print("ok",ok,"bad",bad)
